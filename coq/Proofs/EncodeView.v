(* C03 / K2, code part: what CPython's disassembler reads in the code blocks_to_bytes emits for
   well-formed data without private override fields (statement S_K2_code of C03b_Statements.v).

   S_K2_code is FALSE as written: [S_K2_code_false] (section 8) - nothing makes cfg_extended_arg a
   byte, and nothing bounds the two tables that the instructions do not fill (the parameter names the
   block type presets in varnames, and freevars), so operands are not bounded by the code length.

   Proved here:
   - [K2_code_gen] : the conclusion of S_K2_code under the side condition on the RESULT
       k2_out_ok c varnames cellvars freevars =
         0 <= EXTENDED_ARG < 256, |varnames| <= 2^31, |cellvars| + |freevars| <= 2^31;
   - [K2_code : S_K2_code_fixed] : S_K2_code with the one extra premise on the INPUT
       k2_extra c bt freevars =
         0 <= EXTENDED_ARG < 256, |freevars| < 2^30, |parameter names of bt| < 2^30
     (k2_extra implies k2_out_ok: [k2_extra_out]);
   - [S_K2_code_false] : ~ S_K2_code (EXTENDED_ARG = 1000, one instruction with operand 256). *)
From Coq Require Import ZArith List Bool Lia ZifyBool.
From PCD Require Import Base.PyBase Base.Cfg Model.Flags Model.Args Model.Data Model.Consts
  Model.LineTable Model.Blocks Model.CodeData Spec.Lnotab Spec.Dis Model.ViewSer
  Proofs.C02_Statements Proofs.C01_Statements Proofs.C03_Statements Proofs.C03b_Statements.
From PCD Require Proofs.BlocksPartition Proofs.InstrCodec Proofs.DecodeView Proofs.EncodeValues
  Proofs.EncodeLines Proofs.LT_310 Proofs.RelaxProofs Proofs.TablesSound.
Import ListNotations. Open Scope Z_scope.
Ltac Zify.zify_post_hook ::= Z.to_euclidean_division_equations.

Module BP := BlocksPartition.
Module IC := InstrCodec.
Module DV := DecodeView.
Module EV := EncodeValues.
Module EL := EncodeLines.
Module RP := RelaxProofs.
Module TS := TablesSound.

Ltac split_andb :=
  repeat match goal with
         | H : _ && _ = true |- _ => apply andb_true_iff in H; destruct H
         end.

(* ------------------------------------------------------------------ *)
(** * 0. Lists *)

Lemma nth_error_combine {A B} : forall (l1 : list A) (l2 : list B) k,
  nth_error (combine l1 l2) k =
  match nth_error l1 k, nth_error l2 k with Some a, Some b => Some (a, b) | _, _ => None end.
Proof.
  induction l1 as [|a l1 IH]; intros l2 k.
  - destruct k; reflexivity.
  - destruct l2 as [|b l2].
    + destruct k; cbn [combine nth_error]; [reflexivity|]. destruct (nth_error l1 k); reflexivity.
    + destruct k; cbn [combine nth_error]; [reflexivity|apply IH].
Qed.

Lemma Forall2_of_nth {A B} (P : A -> B -> Prop) : forall l1 l2,
  length l1 = length l2 ->
  (forall k x y, nth_error l1 k = Some x -> nth_error l2 k = Some y -> P x y) -> Forall2 P l1 l2.
Proof.
  induction l1 as [|a l1 IH]; intros [|b l2] Hl H; try discriminate; constructor.
  - apply (H 0%nat); reflexivity.
  - apply IH; [cbn in Hl; lia|]. intros k x y Hx Hy. apply (H (S k)); assumption.
Qed.

Lemma list_eqb_Forall2 {A} (R : A -> A -> bool) : forall l1 l2,
  Forall2 (fun x y => R x y = true) l1 l2 -> list_eqb R l1 l2 = true.
Proof. induction 1; cbn [list_eqb]; [reflexivity|]. rewrite H, IHForall2. reflexivity. Qed.

Lemma nth_error_Some_lt {A} (l : list A) k x : nth_error l k = Some x -> (k < length l)%nat.
Proof. intros H. apply nth_error_Some. congruence. Qed.

Lemma nth_error_lt_Some {A} (l : list A) k : (k < length l)%nat -> exists x, nth_error l k = Some x.
Proof.
  intros H. destruct (nth_error l k) eqn:E; [eauto|]. apply nth_error_None in E. lia.
Qed.

Lemma instrsize_ge1 v : 1 <= instrsize v.
Proof. pose proof (RP.instrsize_range v). lia. Qed.

Lemma instrsize_pow v : 0 <= v < 2147483648 -> v < 256 ^ instrsize v.
Proof.
  intros H. unfold instrsize.
  destruct (v <? 0) eqn:E0; [lia|].
  destruct (v <=? 255) eqn:E1; [change (256 ^ 1) with 256; lia|].
  destruct (v <=? 65535) eqn:E2; [change (256 ^ 2) with 65536; lia|].
  destruct (v <=? 16777215) eqn:E3; [change (256 ^ 3) with 16777216; lia|].
  change (256 ^ 4) with 4294967296. lia.
Qed.

Lemma instrsize_1 v : 0 <= v < 256 -> instrsize v = 1.
Proof.
  intros H. unfold instrsize. destruct (v <? 0) eqn:E0; [lia|]. destruct (v <=? 255) eqn:E1; [reflexivity|lia].
Qed.

Lemma range2_cells o n : 1 <= n -> range2 o (o + 2 * n) = o :: range2_fuel (Z.to_nat (n - 1)) (o + 2).
Proof.
  intros H. rewrite LT_310.range2_fuel_eq by (unfold LT_310.wfw; lia).
  replace (Z.to_nat (2 * n / 2)) with (S (Z.to_nat (n - 1))) by lia. reflexivity.
Qed.

(* ------------------------------------------------------------------ *)
(** * 1. assemble without overrides: the code string and the line mapping *)

Section Assemble.
  Context {C : Type}.
  Variable c : cfg.
  Implicit Types (i : instr_ C) (l : list (instr_ C)) (vals : list Z).

  (* no private override fields *)
  Definition nov i : Prop := i_nargs i = None /\ i_lineoffs i = [].

  Definition specs l vals : list IC.ispec :=
    map (fun iv : instr_ C * Z => (i_name (fst iv), snd iv, instrsize (snd iv))) (combine l vals).

  Lemma asm_spec : forall l vals o lm code lm',
    Forall nov l -> Forall (fun kv : Z * option Z => fst kv < o) (lm_lines lm) ->
    assemble c l vals o lm = OK (code, lm') ->
    code = flat_map (IC.emit_ispec c) (specs l vals) /\
    lm' = {| lm_lines := lm_lines lm ++ lines_of_layout (layout_of l vals o); lm_adds := lm_adds lm |} /\
    (length l <= length vals)%nat.
  Proof.
    induction l as [|i r IH]; intros vals o lm code lm' Hnov F H.
    - cbn [assemble] in H. inversion H; subst. split; [reflexivity|].
      split; [|cbn [length]; lia]. destruct lm' as [L0 A0]; cbn [layout_of lines_of_layout lm_lines lm_adds].
      rewrite app_nil_r. reflexivity.
    - destruct vals as [|v vs]; [cbn [assemble] in H; discriminate|].
      inversion Hnov as [|? ? [Hn Ho] Hr]; subst.
      apply EL.assemble_step in H. cbv zeta in H. destruct H as (rest & -> & H).
      rewrite Hn, Ho in H. cbn [n_units] in H.
      pose proof (instrsize_ge1 v) as Hge.
      replace (o + 2 * Z.of_nat (Z.to_nat (instrsize v))) with (o + 2 * instrsize v) in H by lia.
      assert (Hfr : ~ In o (map fst (lm_lines lm))).
      { intros Hin. apply in_map_iff in Hin as [[k0 v0] [E Hin]]. cbn [fst] in E. subst k0.
        rewrite Forall_forall in F. specialize (F _ Hin). cbn [fst] in F. lia. }
      rewrite (LT_310.oset_fresh _ _ _ Hfr) in H.
      rewrite EL.range2_units in H by exact Hge.
      rewrite LT_310.fold_oset_fuel in H.
      2:{ apply EL.fresh_lt. apply Forall_app. split.
          - eapply EL.Forall_lt_mono; [|exact F]. lia.
          - constructor; [cbn [fst]; lia|constructor]. }
      apply IH in H; [|exact Hr|].
      2:{ cbn [lm_lines]. apply Forall_app. split; [apply Forall_app; split|].
          - eapply EL.Forall_lt_mono; [|exact F]. lia.
          - constructor; [cbn [fst]; lia|constructor].
          - apply EL.Forall_cells_lt. lia. }
      destruct H as (-> & -> & Hl). cbn [lm_lines lm_adds].
      split; [|split; [|cbn [length]; lia]].
      + cbn [specs combine map flat_map fst snd IC.emit_ispec]. rewrite Hn. reflexivity.
      + cbn [layout_of lines_of_layout]. rewrite Hn. cbn [n_units].
        rewrite range2_cells by exact Hge. cbn [map app].
        rewrite <- !app_assoc. cbn [app]. reflexivity.
  Qed.

  Lemma layout_of_ok : forall l vals o, Forall nov l -> layout_ok (layout_of l vals o) o = true.
  Proof.
    induction l as [|i r IH]; intros vals o Hnov; [reflexivity|].
    destruct vals as [|v vs]; [reflexivity|].
    inversion Hnov as [|? ? [Hn Ho] Hr]; subst.
    cbn [layout_of layout_ok]. rewrite Hn. cbn [n_units]. pose proof (instrsize_ge1 v).
    rewrite IH by exact Hr. lia.
  Qed.
End Assemble.

(* ------------------------------------------------------------------ *)
(** * 2. Offsets, parsing the emitted code, code_ok *)

Section Layout.
  Context {C : Type}.
  Variable c : cfg.
  Implicit Types (i : instr_ C) (l : list (instr_ C)) (vals : list Z).

  Lemma pre_S_cons i r v vs m : RP.pre (S m) (i :: r) (v :: vs) = RP.sz i v + RP.pre m r vs.
  Proof. reflexivity. Qed.

  Lemma sz_nov i v : nov i -> RP.sz i v = instrsize v.
  Proof. intros [Hn _]. unfold RP.sz. rewrite Hn. reflexivity. Qed.

  Lemma pre_nil m vals : RP.pre m (@nil (instr_ C)) vals = 0.
  Proof. destruct m; reflexivity. Qed.

  Lemma pre_vnil m l : RP.pre m l [] = 0.
  Proof. destruct m; [reflexivity|]. destruct l; reflexivity. Qed.

  Lemma pre_step : forall l vals k i v,
    nth_error l k = Some i -> nth_error vals k = Some v ->
    RP.pre (S k) l vals = RP.pre k l vals + RP.sz i v.
  Proof.
    induction l as [|a r IH]; intros vals k i v Hi Hv; [destruct k; discriminate|].
    destruct vals as [|w vs]; [destruct k; discriminate|].
    destruct k as [|k].
    - cbn [nth_error] in Hi, Hv. inversion Hi; inversion Hv; subst.
      rewrite pre_S_cons, !RP.pre_0. lia.
    - cbn [nth_error] in Hi, Hv. rewrite (pre_S_cons a r w vs (S k)), (IH _ _ _ _ Hi Hv).
      rewrite (pre_S_cons a r w vs k). lia.
  Qed.

  Lemma pre_le_S : forall l vals m, Forall nov l -> RP.pre m l vals <= RP.pre (S m) l vals.
  Proof.
    induction l as [|a r IH]; intros vals m Hn.
    - rewrite !pre_nil. lia.
    - destruct vals as [|w vs]; [rewrite !pre_vnil; lia|].
      inversion Hn as [|? ? Ha Hr]; subst.
      rewrite pre_S_cons. destruct m as [|m].
      + rewrite !RP.pre_0. rewrite (sz_nov _ _ Ha). pose proof (instrsize_ge1 w). lia.
      + rewrite pre_S_cons. specialize (IH vs m Hr). lia.
  Qed.

  Lemma pre_mono l vals m m' : Forall nov l -> (m <= m')%nat -> RP.pre m l vals <= RP.pre m' l vals.
  Proof.
    intros Hn Hm. induction Hm as [|m' Hm IH]; [lia|].
    pose proof (pre_le_S l vals m' Hn). lia.
  Qed.

  Lemma pre_ge_count : forall l vals m, Forall nov l ->
    (m <= length l)%nat -> (length l <= length vals)%nat -> Z.of_nat m <= RP.pre m l vals.
  Proof.
    induction l as [|a r IH]; intros vals m Hn Hm Hl.
    - cbn [length] in Hm. rewrite pre_nil. lia.
    - destruct vals as [|w vs]; [cbn [length] in Hl; lia|].
      destruct m as [|m]; [rewrite RP.pre_0; lia|].
      inversion Hn as [|? ? Ha Hr]; subst. cbn [length] in Hm, Hl.
      rewrite pre_S_cons, (sz_nov _ _ Ha). pose proof (instrsize_ge1 w).
      specialize (IH vs m Hr ltac:(lia) ltac:(lia)). lia.
  Qed.

  Lemma pre_nonneg l vals m : Forall nov l -> 0 <= RP.pre m l vals.
  Proof. intros Hn. pose proof (pre_mono l vals 0 m Hn ltac:(lia)). rewrite RP.pre_0 in H. exact H. Qed.

  Lemma specs_length l vals : length l = length vals -> length (specs l vals) = length l.
  Proof. intros H. unfold specs. rewrite map_length, combine_length. lia. Qed.

  Lemma layout_length : forall (s : list IC.ispec) o, length (IC.layout o s) = length s.
  Proof.
    induction s as [|[[op a] k] s IH]; intros o; [reflexivity|]. cbn [IC.layout length]. now rewrite IH.
  Qed.

  (* the k-th instruction of the emitted code *)
  Lemma layout_nth : forall l vals o k i v,
    Forall nov l -> nth_error l k = Some i -> nth_error vals k = Some v ->
    nth_error (IC.layout o (specs l vals)) k
    = Some (i_name i, v, instrsize v, o + 2 * RP.pre k l vals, o + 2 * RP.pre (S k) l vals).
  Proof.
    induction l as [|a r IH]; intros vals o k i v Hn Hi Hv; [destruct k; discriminate|].
    destruct vals as [|w vs]; [destruct k; discriminate|].
    inversion Hn as [|? ? Ha Hr]; subst.
    cbn [specs combine map fst snd IC.layout]. destruct k as [|k].
    - cbn [nth_error] in *. inversion Hi; inversion Hv; subst.
      rewrite pre_S_cons, !RP.pre_0, (sz_nov _ _ Ha). f_equal. apply IC.pinstr_eq; lia.
    - cbn [nth_error] in *. fold (specs r vs). rewrite (IH vs _ k i v Hr Hi Hv).
      rewrite (pre_S_cons a r w vs k), (pre_S_cons a r w vs (S k)), (sz_nov _ _ Ha).
      f_equal. apply IC.pinstr_eq; lia.
  Qed.

  Lemma layout_firsts : forall l vals o, Forall nov l ->
    map (fun x : layout_item => fst (fst x)) (layout_of l vals o)
    = map BP.p_first (IC.layout o (specs l vals)).
  Proof.
    induction l as [|a r IH]; intros vals o Hn; [reflexivity|].
    destruct vals as [|w vs]; [reflexivity|].
    inversion Hn as [|? ? [Ha Ho] Hr]; subst.
    cbn [layout_of specs combine map fst snd IC.layout BP.p_first]. rewrite Ha. cbn [n_units].
    fold (specs r vs). rewrite (IH vs _ Hr). reflexivity.
  Qed.

  Lemma zlen_emitted : forall l vals, Forall nov l -> length l = length vals ->
    zlen (flat_map (IC.emit_ispec c) (specs l vals)) = 2 * RP.pre (length l) l vals.
  Proof.
    induction l as [|a r IH]; intros vals Hn Hl.
    - reflexivity.
    - destruct vals as [|w vs]; [discriminate|]. inversion Hn as [|? ? Ha Hr]; subst.
      cbn [specs combine map fst snd flat_map IC.emit_ispec length]. fold (specs r vs).
      rewrite pre_S_cons, (sz_nov _ _ Ha). unfold zlen in *. rewrite app_length, Nat2Z.inj_add.
      rewrite (IH vs Hr) by (cbn [length] in Hl; lia).
      pose proof (EL.zlen_emit_units c (i_name a) w (Z.to_nat (instrsize w))) as Hz.
      unfold zlen in Hz. rewrite Hz. pose proof (instrsize_ge1 w). lia.
  Qed.

  (* operand and opcode conditions under which the emitted code parses back and is well shaped *)
  Definition val_ok i (v : Z) : Prop :=
    0 <= v < 2147483648 /\ (i_name i < cfg_have_argument c -> v < 256).
  Definition op_ok i : Prop := i_name i <> cfg_extended_arg c /\ 0 <= i_name i < 256.

  Lemma specs_ok : forall l vals, Forall op_ok l -> Forall2 val_ok l vals ->
    forallb (IC.ispec_ok c) (specs l vals) = true.
  Proof.
    intros l vals Ho H. induction H as [|i v l vals [Hv _] H IH]; [reflexivity|].
    inversion Ho as [|? ? [Hop _] Hor]; subst.
    cbn [specs combine map fst snd forallb]. fold (specs l vals). rewrite (IH Hor), andb_true_r.
    cbn [IC.ispec_ok]. pose proof (instrsize_ge1 v). pose proof (instrsize_pow v Hv).
    apply andb_true_iff. split; [lia|]. apply orb_true_iff. left.
    apply andb_true_iff. split; [lia|]. apply Z.ltb_lt. assumption.
  Qed.

  Hypothesis Hext : 0 <= cfg_extended_arg c < 256.

  Lemma units_ok_emit : forall (j : nat) op a rest n acc,
    op <> cfg_extended_arg c -> 0 <= op < 256 -> 0 <= a < 2147483648 ->
    acc = (a / 256 ^ Z.of_nat j) * 256 -> (j > 0)%nat -> 0 <= n -> n + Z.of_nat j <= 4 ->
    (n + Z.of_nat j = 1 \/ cfg_have_argument c <= op) ->
    units_ok c (emit_units c op a j ++ rest) n acc = units_ok c rest 0 0.
  Proof.
    induction j as [|j IH]; intros op a rest n acc Hop Hr Ha Hacc Hj Hn Hle Hk; [lia|].
    cbn [emit_units app]. destruct j as [|j'].
    - cbn [Nat.eqb emit_units app units_ok].
      rewrite IC.byte_at by lia. change (Z.of_nat 0) with 0. change (Z.of_nat 1) with 1 in *.
      rewrite Z.pow_0_r, Z.div_1_r. rewrite Z.pow_1_r in Hacc.
      destruct (op =? cfg_extended_arg c) eqn:E; [lia|].
      destruct (units_ok c rest 0 0); [|rewrite !andb_false_r; reflexivity].
      rewrite andb_true_r. lia.
    - cbn [Nat.eqb units_ok]. rewrite Z.eqb_refl.
      set (J := S j') in *.
      assert (HJ : 256 ^ Z.of_nat (S J) = 256 * 256 ^ Z.of_nat J)
        by (rewrite Nat2Z.inj_succ, Z.pow_succ_r; lia).
      assert (Hp : 0 < 256 ^ Z.of_nat J) by (apply Z.pow_pos_nonneg; lia).
      rewrite IC.byte_at by lia.
      rewrite HJ in Hacc.
      set (P := 256 ^ Z.of_nat J) in *.
      assert (Hnew : acc + (a / P) mod 256 = a / P) by (rewrite (IC.div_step c a P); lia).
      rewrite Hnew.
      rewrite (IH op a rest (n + 1) (a / P * 256)); try assumption; try reflexivity; try lia.
      destruct (units_ok c rest 0 0); [|rewrite !andb_false_r; reflexivity].
      rewrite andb_true_r. lia.
  Qed.

  Lemma units_ok_specs : forall l vals, Forall op_ok l -> Forall2 val_ok l vals ->
    units_ok c (flat_map (IC.emit_ispec c) (specs l vals)) 0 0 = true.
  Proof.
    intros l vals Ho H. induction H as [|i v l vals [Hv Hs] H IH]; [reflexivity|].
    inversion Ho as [|? ? [Hop Hb] Hor]; subst.
    cbn [specs combine map fst snd flat_map IC.emit_ispec]. fold (specs l vals).
    pose proof (RP.instrsize_range v) as Hk. pose proof (instrsize_pow v Hv) as Hp.
    rewrite (units_ok_emit (Z.to_nat (instrsize v)) (i_name i) v _ 0 0); try assumption; try lia.
    - exact (IH Hor).
    - rewrite Z2Nat.id by lia. rewrite Z.div_small; lia.
    - rewrite Z2Nat.id by lia.
      destruct (Z_lt_le_dec (i_name i) (cfg_have_argument c)) as [Hlt|Hge]; [left|right; exact Hge].
      rewrite instrsize_1; [lia|]. specialize (Hs Hlt). lia.
  Qed.

  Lemma emitted_code l vals : Forall nov l -> Forall op_ok l -> Forall2 val_ok l vals ->
    code_ok c (flat_map (IC.emit_ispec c) (specs l vals)) = true /\
    parse_bytes c (flat_map (IC.emit_ispec c) (specs l vals)) 0 0 0 = OK (IC.layout 0 (specs l vals)).
  Proof.
    intros Hn Ho Hv. split.
    - unfold code_ok. apply units_ok_specs; assumption.
    - apply IC.parse_emit_list. apply specs_ok; assumption.
  Qed.
End Layout.

(* ------------------------------------------------------------------ *)
(** * 3. The operand values: relax only rewrites jumps; literal operands; table sizes *)

Section Values.
  Context {C : Type}.
  Variable c : cfg.

  Lemma uj_nonjump : forall (l : list (instr_ C)) a offs cur b ch,
    update_jumps c l a offs cur = OK (b, ch) ->
    forall k i, nth_error l k = Some i -> RP.is_jump i = false -> nth_error b k = nth_error a k.
  Proof.
    induction l as [|x r IH]; intros a offs cur b ch H k i Hk Hj; [destruct k; discriminate|].
    apply RP.uj_inv in H
      as (v & vs & rest & ch' & -> & Hr & [(t & rel & toff & Ha & _ & -> & _)|(Hx & -> & _)]).
    - destruct k as [|k]; cbn [nth_error] in *.
      + inversion Hk; subst. unfold RP.is_jump in Hj. rewrite Ha in Hj. discriminate.
      + eapply IH; eauto.
    - destruct k; cbn [nth_error] in *; [reflexivity|eapply IH; eauto].
  Qed.

  Lemma relax_nonjump (blocks : list (list (instr_ C))) : forall fuel vals0 vals,
    relax fuel c blocks vals0 = OK vals ->
    forall k i, nth_error (concat blocks) k = Some i -> RP.is_jump i = false ->
                nth_error vals k = nth_error vals0 k.
  Proof.
    induction fuel as [|fuel IH]; intros vals0 vals H k i Hk Hj; [discriminate|].
    rewrite RP.relax_S in H.
    destruct (update_jumps c (concat blocks) vals0 (block_offsets blocks vals0 0) 0)
      as [[vals' chd]|] eqn:E; [|discriminate].
    pose proof (uj_nonjump _ _ _ _ _ _ E k i Hk Hj) as H1.
    destruct chd.
    - rewrite (IH _ _ H k i Hk Hj). exact H1.
    - inversion H; subst. exact H1.
  Qed.

  Lemma afo_nth nc (l : list (instr_ C)) vals0 k i v0 :
    nth_error l k = Some i -> nth_error vals0 k = Some v0 ->
    nth_error (add_freevar_offset nc l vals0) k
    = Some (match i_arg i with AFreevar _ => v0 + nc | _ => v0 end).
  Proof.
    intros H H0. unfold add_freevar_offset. rewrite nth_error_map, nth_error_combine, H, H0.
    reflexivity.
  Qed.

  (** table sizes *)
  Lemma oset_length {V} (d : odict V) k v : (length (oset d k v) <= S (length d))%nat.
  Proof.
    induction d as [|[k' v'] d IH]; cbn [oset length]; [lia|].
    destruct (k' =? k); cbn [length]; lia.
  Qed.

  Lemma fa_setitem_len {T} (kq : T -> T -> bool) (st st' : fromargs T) i a :
    fa_setitem kq st i a = OK st' -> (length (fa_items st') <= S (length (fa_items st)))%nat.
  Proof.
    unfold fa_setitem. destruct (match oget (fa_items st) i with Some old => negb (kq old a) | None => false end);
      [discriminate|].
    intros H; inversion H; subst. cbn [fa_items]. apply oset_length.
  Qed.

  Lemma fa_add_len {T} (kq : T -> T -> bool) (st st' : fromargs T) a ov i :
    fa_add kq st a ov = OK (i, st') -> (length (fa_items st') <= S (length (fa_items st)))%nat.
  Proof.
    unfold fa_add. destruct ov as [j|].
    - destruct (fa_setitem kq st j a) as [s|] eqn:E; [|discriminate].
      intros H; inversion H; subst. eapply fa_setitem_len; eauto.
    - destruct (key_lookup kq (fa_index st) a).
      + intros H; inversion H; subst. lia.
      + destruct (fa_setitem kq st (zlen (fa_items st)) a) as [s|] eqn:E; [|discriminate].
        intros H; inversion H; subst. eapply fa_setitem_len; eauto.
  Qed.

  Lemma set_all_len {T} (kq : T -> T -> bool) : forall (l : list T) i t t',
    TablesReplay.set_all kq l i t = OK t' ->
    (length (fa_items t') <= length (fa_items t) + length l)%nat.
  Proof.
    induction l as [|k r IH]; intros i t t' H; cbn [TablesReplay.set_all] in H.
    - inversion H; subst. lia.
    - destruct (fa_setitem kq t i k) as [t1|] eqn:E; [|discriminate].
      apply IH in H. apply fa_setitem_len in E. cbn [length]. lia.
  Qed.

  Variables (keq : C -> C -> bool) (is_str : C -> bool) (none_c : C) (str_c : str -> C).

  Definition tl_names (st : encstate C) := length (fa_items (e_names st)).
  Definition tl_varnames (st : encstate C) := length (fa_items (e_varnames st)).
  Definition tl_cellvars (st : encstate C) := length (fa_items (e_cellvars st)).
  Definition tl_consts (st : encstate C) := length (fa_items (e_consts st)).

  Lemma from_arg_len a bt fv st v st' :
    from_arg keq is_str none_c a bt fv st = OK (v, st') ->
    (tl_names st' <= S (tl_names st) /\ tl_varnames st' <= S (tl_varnames st) /\
     tl_cellvars st' <= S (tl_cellvars st) /\ tl_consts st' <= S (S (tl_consts st)))%nat.
  Proof.
    unfold tl_names, tl_varnames, tl_cellvars, tl_consts.
    intros H. destruct a; cbn [from_arg] in H.
    - inversion H; subst. lia.
    - inversion H; subst. lia.
    - destruct (fa_add str_eqb (e_names st) s ov) as [[i t]|] eqn:E; [|discriminate].
      inversion H; subst. apply fa_add_len in E. cbn [e_names e_varnames e_cellvars e_consts]. lia.
    - destruct (fa_add str_eqb (e_varnames st) s ov) as [[i t]|] eqn:E; [|discriminate].
      inversion H; subst. apply fa_add_len in E. cbn [e_names e_varnames e_cellvars e_consts]. lia.
    - match type of H with
      | match ?X with OK _ => _ | Err _ => _ end = _ => destruct X as [cs|] eqn:Ecs; [|discriminate]
      end.
      assert (Hcs : (length (fa_items cs) <= S (length (fa_items (e_consts st))))%nat).
      { match type of Ecs with (if ?b then _ else _) = _ => destruct b end.
        - eapply fa_setitem_len; eauto.
        - inversion Ecs; subst. lia. }
      destruct (fa_add keq cs c0 ov) as [[i t]|] eqn:E; [|discriminate].
      inversion H; subst. apply fa_add_len in E. cbn [e_names e_varnames e_cellvars e_consts]. lia.
    - destruct (index_of str_eqb s fv) as [i|] eqn:E; [|discriminate].
      inversion H; subst. lia.
    - destruct (fa_add str_eqb (e_cellvars st) s ov) as [[i t]|] eqn:E; [|discriminate].
      inversion H; subst. apply fa_add_len in E. cbn [e_names e_varnames e_cellvars e_consts]. lia.
    - inversion H; subst. lia.
  Qed.

  Lemma first_args_len bt fv : forall l st vals st',
    first_args keq is_str none_c l bt fv st = OK (vals, st') ->
    (tl_names st' <= tl_names st + length l /\ tl_varnames st' <= tl_varnames st + length l /\
     tl_cellvars st' <= tl_cellvars st + length l /\ tl_consts st' <= tl_consts st + 2 * length l)%nat.
  Proof.
    induction l as [|i r IH]; intros st vals st' H; cbn [first_args] in H.
    - inversion H; subst. cbn [length]. lia.
    - destruct (from_arg keq is_str none_c (i_arg i) bt fv st) as [[v st1]|] eqn:Ea; [|discriminate].
      destruct (first_args keq is_str none_c r bt fv st1) as [[vs st2]|] eqn:Er; [|discriminate].
      inversion H; subst. apply from_arg_len in Ea. apply IH in Er. cbn [length]. lia.
  Qed.

  Lemma enc_init_len bt st0 : enc_init keq str_c bt = OK st0 ->
    tl_names st0 = 0%nat /\ tl_cellvars st0 = 0%nat /\ (tl_consts st0 <= 1)%nat /\
    (tl_varnames st0 <= match bt with Some f => length (args_to_varnames (fn_args f)) | None => 0 end)%nat.
  Proof.
    unfold tl_names, tl_varnames, tl_cellvars, tl_consts, enc_init. destruct bt as [f|].
    2:{ intros H; inversion H; subst. cbn. lia. }
    match goal with
    | |- match ?X with OK _ => _ | Err _ => _ end = _ -> _ =>
        change X with (TablesReplay.set_all str_eqb (args_to_varnames (fn_args f)) 0 fromargs_empty)
    end.
    destruct (TablesReplay.set_all str_eqb (args_to_varnames (fn_args f)) 0 fromargs_empty) as [vn|] eqn:Ev;
      [|discriminate].
    apply set_all_len in Ev. cbn [fromargs_empty fa_items length] in Ev.
    destruct (fn_doc f) as [d|].
    - destruct (fa_setitem keq fromargs_empty 0 (str_c d)) as [cs|] eqn:Ec; [|discriminate].
      apply fa_setitem_len in Ec. cbn [fromargs_empty fa_items length] in Ec.
      intros H; inversion H; subst. cbn [e_names e_varnames e_cellvars e_consts fromargs_empty fa_items length].
      lia.
    - intros H; inversion H; subst. cbn [e_names e_varnames e_cellvars e_consts fromargs_empty fa_items length].
      lia.
  Qed.

  (* literal operands are passed through *)
  Definition lit_ok (i : instr_ C) (v : Z) : Prop :=
    match i_arg i with AInt z | ANoArg z => v = z | _ => True end.

  Lemma first_args_lit bt fv : forall l st vals st',
    first_args keq is_str none_c l bt fv st = OK (vals, st') -> Forall2 lit_ok l vals.
  Proof.
    induction l as [|i r IH]; intros st vals st' H; cbn [first_args] in H.
    - inversion H; subst. constructor.
    - destruct (from_arg keq is_str none_c (i_arg i) bt fv st) as [[v st1]|] eqn:Ea; [|discriminate].
      destruct (first_args keq is_str none_c r bt fv st1) as [[vs st2]|] eqn:Er; [|discriminate].
      inversion H; subst. constructor; [|eapply IH; eauto].
      unfold lit_ok. destruct (i_arg i); try exact I; cbn [from_arg] in Ea; inversion Ea; reflexivity.
  Qed.

  Lemma b2b_inv blocks fv bt code lm names varnames cellvars consts :
    blocks_to_bytes keq is_str none_c str_c c blocks [] fv bt
      = OK (code, lm, names, varnames, cellvars, consts) ->
    exists st0 vals0 st vals,
      enc_init keq str_c bt = OK st0 /\
      first_args keq is_str none_c (concat blocks) bt fv st0 = OK (vals0, st) /\
      relax (3 * length (concat blocks) + 2) c blocks
            (add_freevar_offset (zlen (fa_items (e_cellvars st))) (concat blocks) vals0) = OK vals /\
      assemble c (concat blocks) vals 0 empty_linemap = OK (code, lm) /\
      fa_to_tuple (e_names st) = OK names /\ fa_to_tuple (e_varnames st) = OK varnames /\
      fa_to_tuple (e_cellvars st) = OK cellvars /\ fa_to_tuple (e_consts st) = OK consts.
  Proof.
    intros H. unfold blocks_to_bytes in H.
    destruct (enc_init keq str_c bt) as [st0|] eqn:Hi; [|discriminate].
    destruct (first_args keq is_str none_c (concat blocks) bt fv st0) as [[vals0 st1]|] eqn:Hf;
      [|discriminate].
    cbn [add_additional] in H. cbv zeta in H.
    destruct (relax _ c blocks _) as [vals2|] eqn:Hr; [|discriminate].
    destruct (assemble _ _ _ _ _) as [[code' lm']|] eqn:Ha; [|discriminate].
    destruct (fa_to_tuple (e_names st1)) as [n|] eqn:T1; [|discriminate].
    destruct (fa_to_tuple (e_varnames st1)) as [vn|] eqn:T2; [|discriminate].
    destruct (fa_to_tuple (e_cellvars st1)) as [cv|] eqn:T3; [|discriminate].
    destruct (fa_to_tuple (e_consts st1)) as [k|] eqn:T4; [|discriminate].
    inversion H; subst.
    exists st0, vals0, st1, vals2. repeat split; assumption.
  Qed.
End Values.

(* ------------------------------------------------------------------ *)
(** * 4. Blocks: first-instruction indices, jump targets *)

Section BlocksFacts.
  Context {C : Type}.
  Implicit Types (blocks : list (list (instr_ C))).

  Lemma bfi_nth : forall blocks i0 t, (t < length blocks)%nat ->
    nth_error (block_first_indices blocks i0) t
    = Some (i0 + Z.of_nat (length (concat (firstn t blocks)))).
  Proof.
    induction blocks as [|b r IH]; intros i0 t Ht; [cbn [length] in Ht; lia|].
    cbn [block_first_indices]. destruct t as [|t].
    - cbn [nth_error firstn concat length]. f_equal. lia.
    - cbn [nth_error firstn concat length] in *. rewrite IH by lia.
      rewrite app_length. unfold zlen. f_equal. lia.
  Qed.

  Lemma firstn_concat_lt : forall blocks t,
    Forall (fun b => b <> []) blocks -> (t < length blocks)%nat ->
    (length (concat (firstn t blocks)) < length (concat blocks))%nat.
  Proof.
    induction blocks as [|b r IH]; intros t Hne Ht; [cbn [length] in Ht; lia|].
    inversion Hne as [|? ? Hb Hr]; subst. cbn [concat]. rewrite app_length.
    destruct t as [|t].
    - cbn [firstn concat length]. destruct b; [congruence|cbn [length]; lia].
    - cbn [firstn concat length] in *. rewrite app_length. specialize (IH t Hr ltac:(lia)). lia.
  Qed.

  Lemma firstn_concat_le : forall blocks t,
    (length (concat (firstn t blocks)) <= length (concat blocks))%nat.
  Proof.
    induction blocks as [|b r IH]; intros t; [destruct t; cbn; lia|].
    destruct t as [|t]; cbn [firstn concat length]; [lia|].
    rewrite !app_length. specialize (IH t). lia.
  Qed.

  (* jump targets designate blocks; a relative jump's target block begins after the jump *)
  Lemma jumps_ok_nth : forall blocks bi0 nb k i t rel,
    jumps_ok nb blocks bi0 = true ->
    nth_error (concat blocks) k = Some i -> i_arg i = AJump t rel ->
    0 <= t < nb /\
    (rel = true -> (S k <= length (concat (firstn (Z.to_nat (t - bi0)) blocks)))%nat).
  Proof.
    induction blocks as [|b r IH]; intros bi0 nb k i t rel H Hk Ha; [destruct k; discriminate|].
    cbn [jumps_ok] in H. apply andb_true_iff in H as [Hb Hr].
    cbn [concat] in Hk.
    destruct (Nat.lt_ge_cases k (length b)) as [Hlt|Hge].
    - rewrite nth_error_app1 in Hk by exact Hlt.
      rewrite forallb_forall in Hb. specialize (Hb i (nth_error_In _ _ Hk)). rewrite Ha in Hb.
      split; [lia|]. intros ->.
      replace (Z.to_nat (t - bi0)) with (S (Z.to_nat (t - bi0 - 1))) by lia.
      cbn [firstn concat]. rewrite app_length. lia.
    - rewrite nth_error_app2 in Hk by exact Hge.
      destruct (IH (bi0 + 1) nb _ i t rel Hr Hk Ha) as [Ht Hrel].
      split; [exact Ht|]. intros ->. specialize (Hrel eq_refl).
      destruct (Z_lt_le_dec (t - (bi0 + 1)) 0) as [Hneg|Hpos].
      { replace (Z.to_nat (t - (bi0 + 1))) with 0%nat in Hrel by lia.
        cbn [firstn concat length] in Hrel. lia. }
      replace (Z.to_nat (t - bi0)) with (S (Z.to_nat (t - (bi0 + 1)))) by lia.
      cbn [firstn concat]. rewrite app_length. lia.
  Qed.
End BlocksFacts.

(* ------------------------------------------------------------------ *)
(** * 5. Opcode classes *)

Lemma one_class c : cfg_ops_wf c = true -> forall op,
  (zmem op (cfg_hasjabs c) = true ->
     zmem op (cfg_hasjrel c) = false /\ zmem op (cfg_hasname c) = false /\
     zmem op (cfg_haslocal c) = false /\ zmem op (cfg_hasfree c) = false /\
     zmem op (cfg_hasconst c) = false /\ cfg_have_argument c <= op) /\
  (zmem op (cfg_hasjrel c) = true ->
     zmem op (cfg_hasjabs c) = false /\ zmem op (cfg_hasname c) = false /\
     zmem op (cfg_haslocal c) = false /\ zmem op (cfg_hasfree c) = false /\
     zmem op (cfg_hasconst c) = false /\ cfg_have_argument c <= op) /\
  (zmem op (cfg_hasname c) = true ->
     zmem op (cfg_hasjabs c) = false /\ zmem op (cfg_hasjrel c) = false /\
     zmem op (cfg_haslocal c) = false /\ zmem op (cfg_hasfree c) = false /\
     zmem op (cfg_hasconst c) = false /\ cfg_have_argument c <= op) /\
  (zmem op (cfg_haslocal c) = true ->
     zmem op (cfg_hasjabs c) = false /\ zmem op (cfg_hasjrel c) = false /\
     zmem op (cfg_hasname c) = false /\ zmem op (cfg_hasfree c) = false /\
     zmem op (cfg_hasconst c) = false /\ cfg_have_argument c <= op) /\
  (zmem op (cfg_hasfree c) = true ->
     zmem op (cfg_hasjabs c) = false /\ zmem op (cfg_hasjrel c) = false /\
     zmem op (cfg_hasname c) = false /\ zmem op (cfg_haslocal c) = false /\
     zmem op (cfg_hasconst c) = false /\ cfg_have_argument c <= op) /\
  (zmem op (cfg_hasconst c) = true ->
     zmem op (cfg_hasjabs c) = false /\ zmem op (cfg_hasjrel c) = false /\
     zmem op (cfg_hasname c) = false /\ zmem op (cfg_haslocal c) = false /\
     zmem op (cfg_hasfree c) = false /\ cfg_have_argument c <= op).
Proof.
  intros H op. destruct (DV.ops_wf_spec c H) as [_ S]. specialize (S op).
  destruct S as (S1 & S2 & S3 & S4 & S5 & S6).
  destruct (zmem op (cfg_hasjabs c)), (zmem op (cfg_hasjrel c)), (zmem op (cfg_hasname c)),
    (zmem op (cfg_haslocal c)), (zmem op (cfg_hasfree c)), (zmem op (cfg_hasconst c));
  repeat match goal with
         | S : true = true -> _ |- _ => specialize (S eq_refl)
         | S : false = true -> _ |- _ => clear S
         end;
  repeat match goal with
         | S : _ /\ _ |- _ => destruct S
         end;
  try discriminate;
  repeat split; intros; try discriminate; try reflexivity; try assumption.
Qed.

(* ------------------------------------------------------------------ *)
(** * 6. The extra premise *)

Definition k2_extra (c : cfg) (bt : option function) (freevars : list str) : bool :=
  (0 <=? cfg_extended_arg c) && (cfg_extended_arg c <? 256)
  && (zlen freevars <? 1073741824)
  && match bt with
     | Some f => zlen (args_to_varnames (fn_args f)) <? 1073741824
     | None => true
     end.

Section Main.
  Context {C : Type} (keq : C -> C -> bool) (is_str : C -> bool) (none_c : C) (str_c : str -> C).
  Hypothesis keq_refl : forall x, keq x x = true.
  Hypothesis keq_sym : forall x y, keq x y = keq y x.
  Hypothesis keq_trans : forall x y z, keq x y = true -> keq y z = true -> keq x z = true.
  Variables (c : cfg) (blocks : list (list (instr_ C))) (freevars : list str) (bt : option function).
  Variables (code : list Z) (lm : linemap) (names varnames cellvars : list str) (consts : list C).
  Variables (st0 st : encstate C) (vals0 vals : list Z).

  Hypothesis Hcfg : cfg_ops_wf c = true.
  Hypothesis Hwf : blocks_wf c blocks = true.
  Hypothesis Hext : 0 <= cfg_extended_arg c < 256.
  Hypothesis HvarB : zlen varnames <= 2147483648.
  Hypothesis HfreeB : zlen cellvars + zlen freevars <= 2147483648.
  Hypothesis Hcode : zlen code < 1073741824.
  Hypothesis Hinit : enc_init keq str_c bt = OK st0.
  Hypothesis Hfirst : first_args keq is_str none_c (concat blocks) bt freevars st0 = OK (vals0, st).
  Hypothesis Hrelax : relax (3 * length (concat blocks) + 2) c blocks
            (add_freevar_offset (zlen (fa_items (e_cellvars st))) (concat blocks) vals0) = OK vals.
  Hypothesis Hasm : assemble c (concat blocks) vals 0 empty_linemap = OK (code, lm).
  Hypothesis T1 : fa_to_tuple (e_names st) = OK names.
  Hypothesis T2 : fa_to_tuple (e_varnames st) = OK varnames.
  Hypothesis T3 : fa_to_tuple (e_cellvars st) = OK cellvars.
  Hypothesis T4 : fa_to_tuple (e_consts st) = OK consts.

  Let instrs := concat blocks.
  Let nI := length instrs.

  (** ** well-formedness unpacked *)
  Lemma fits_inv (i : instr_ C) : instr_fits c i = true ->
    zmem (i_name i) (cfg_opcodes c) = true /\ i_name i <> cfg_extended_arg c /\
    0 <= i_name i < 256 /\ i_nargs i = None /\ i_lineoffs i = [] /\
    match i_arg i with
    | AJump _ false => zmem (i_name i) (cfg_hasjabs c)
    | AJump _ true => zmem (i_name i) (cfg_hasjrel c)
    | AName _ ov => zmem (i_name i) (cfg_hasname c) && negb (opt_is_some ov)
    | AVarname _ ov => zmem (i_name i) (cfg_haslocal c) && negb (opt_is_some ov)
    | ACellvar _ ov => zmem (i_name i) (cfg_hasfree c) && negb (opt_is_some ov)
    | AFreevar _ => zmem (i_name i) (cfg_hasfree c)
    | AConst _ ov => zmem (i_name i) (cfg_hasconst c) && negb (opt_is_some ov)
    | ANoArg z => (i_name i <? cfg_have_argument c) && (0 <=? z) && (z <? 256)
    | AInt z => (cfg_have_argument c <=? i_name i) && in_no_class c (i_name i) && (0 <=? z) && (z <? 2147483648)
    end = true.
  Proof.
    unfold instr_fits. cbv zeta. intros H. split_andb.
    repeat split; try assumption; try lia.
    - destruct (i_nargs i); [discriminate|reflexivity].
    - destruct (i_lineoffs i); [reflexivity|discriminate].
  Qed.

  Lemma wf_split :
    forallb (fun b : list (instr_ C) => match b with [] => false | _ => true end) blocks = true /\
    forallb (forallb (instr_fits c)) blocks = true /\
    jumps_ok (zlen blocks) blocks 0 = true.
  Proof.
    pose proof Hwf as W. unfold blocks_wf in W.
    apply andb_true_iff in W as [W _]. apply andb_true_iff in W as [W W3].
    apply andb_true_iff in W as [W1 W2]. repeat split; assumption.
  Qed.

  Lemma wf_nonempty : Forall (fun b : list (instr_ C) => b <> []) blocks.
  Proof.
    destruct wf_split as (H & _ & _). apply Forall_forall. intros b Hb.
    rewrite forallb_forall in H. specialize (H b Hb).
    destruct b; [discriminate|congruence].
  Qed.

  Lemma wf_fits : Forall (fun i => instr_fits c i = true) instrs.
  Proof.
    destruct wf_split as (_ & H & _). apply Forall_forall. intros i Hi.
    apply in_concat in Hi as [b [Hb Hi]].
    rewrite forallb_forall in H. specialize (H b Hb). rewrite forallb_forall in H. exact (H i Hi).
  Qed.

  Lemma wf_jumps : jumps_ok (zlen blocks) blocks 0 = true.
  Proof. exact (proj2 (proj2 wf_split)). Qed.

  Lemma wf_nov : Forall nov instrs.
  Proof.
    eapply Forall_impl; [|exact wf_fits]. intros i Hi. apply fits_inv in Hi.
    destruct Hi as (_ & _ & _ & Hn & Ho & _). split; assumption.
  Qed.

  Lemma wf_op : Forall (op_ok c) instrs.
  Proof.
    eapply Forall_impl; [|exact wf_fits]. intros i Hi. apply fits_inv in Hi.
    destruct Hi as (_ & Hop & Hr & _). split; assumption.
  Qed.

  (** ** what the first halves give *)
  Lemma Hsound : Forall2 (fun i v => TS.arg_sound keq freevars names varnames cellvars consts (i_arg i) v)
                         instrs vals0.
  Proof.
    refine (proj1 (TS.encoder_tables_sound keq is_str none_c str_c keq_refl keq_sym keq_trans
                     instrs [] bt freevars st0 vals0 st st names varnames cellvars consts
                     Hinit Hfirst eq_refl T1 T2 T3 T4)).
  Qed.

  Lemma Hlit : Forall2 lit_ok instrs vals0.
  Proof. eapply first_args_lit; exact Hfirst. Qed.

  Lemma len_vals0 : length vals0 = nI.
  Proof. symmetry. exact (EV.Forall2_length' _ _ _ Hlit). Qed.

  Lemma len_vals : length vals = nI.
  Proof. exact (proj1 (RP.relax_consistent _ _ _ _ _ _ Hrelax)). Qed.

  Lemma ncell_eq : zlen (fa_items (e_cellvars st)) = zlen cellvars.
  Proof. symmetry. exact (proj1 (TS.to_tuple_sound _ _ T3)). Qed.

  Lemma table_bounds :
    zlen names <= Z.of_nat nI /\ zlen cellvars <= Z.of_nat nI /\
    zlen consts <= 1 + 2 * Z.of_nat nI /\
    zlen varnames <= match bt with Some f => zlen (args_to_varnames (fn_args f)) | None => 0 end
                     + Z.of_nat nI.
  Proof.
    destruct (enc_init_len keq is_str none_c str_c bt st0 Hinit) as (I1 & I2 & I3 & I4).
    destruct (first_args_len keq is_str none_c str_c bt freevars _ _ _ _ Hfirst) as (F1 & F2 & F3 & F4).
    rewrite (proj1 (TS.to_tuple_sound _ _ T1)), (proj1 (TS.to_tuple_sound _ _ T2)),
            (proj1 (TS.to_tuple_sound _ _ T3)), (proj1 (TS.to_tuple_sound _ _ T4)).
    unfold tl_names, tl_varnames, tl_cellvars, tl_consts in *. unfold zlen. fold instrs nI in F1, F2, F3, F4.
    destruct bt as [f|]; lia.
  Qed.

  Lemma asm_facts :
    code = flat_map (IC.emit_ispec c) (specs instrs vals) /\
    lm = {| lm_lines := lines_of_layout (layout_of instrs vals 0); lm_adds := [] |}.
  Proof.
    destruct (asm_spec c instrs vals 0 empty_linemap code lm wf_nov (Forall_nil _) Hasm) as (H1 & H2 & _).
    split; [exact H1|]. rewrite H2. reflexivity.
  Qed.

  Lemma total_units : 2 * RP.pre nI instrs vals = zlen code /\ Z.of_nat nI <= RP.pre nI instrs vals.
  Proof.
    split.
    - rewrite (proj1 asm_facts). symmetry. apply zlen_emitted; [exact wf_nov|]. symmetry. exact len_vals.
    - apply pre_ge_count; [exact wf_nov|unfold nI; lia|rewrite len_vals; unfold nI; lia].
  Qed.

  (** ** the final operand of instruction [k] *)
  Definition jt (t : Z) : nat := length (concat (firstn (Z.to_nat t) blocks)).

  Definition opnd (i : instr_ C) (k : nat) (v : Z) : Prop :=
    match i_arg i with
    | AName s _ => 0 <= v < zlen names /\ nth_error names (Z.to_nat v) = Some s
    | AVarname s _ => 0 <= v < zlen varnames /\ nth_error varnames (Z.to_nat v) = Some s
    | ACellvar s _ => 0 <= v < zlen cellvars /\ nth_error cellvars (Z.to_nat v) = Some s
    | AFreevar s => zlen cellvars <= v < zlen cellvars + zlen freevars /\
                    nth_error freevars (Z.to_nat (v - zlen cellvars)) = Some s
    | AConst k0 _ => 0 <= v < zlen consts /\
                     exists k', nth_error consts (Z.to_nat v) = Some k' /\ keq k' k0 = true
    | AInt z | ANoArg z => v = z
    | AJump t rel =>
        0 <= t < zlen blocks /\
        v = if rel then (RP.pre (jt t) instrs vals - RP.pre (S k) instrs vals) * RP.mult c
            else RP.mult c * RP.pre (jt t) instrs vals
    end.

  Lemma opnd_at k i v : nth_error instrs k = Some i -> nth_error vals k = Some v -> opnd i k v.
  Proof.
    intros Hi Hv. destruct (RP.is_jump i) eqn:Hj.
    - unfold RP.is_jump in Hj. destruct (i_arg i) as [| t rel | | | | | |] eqn:Ea; try discriminate.
      pose proof (RP.relax_jump_operand C _ c blocks _ vals k i t rel Hrelax Hi Ea) as H.
      cbv zeta in H. destruct H as (Ht & _ & Hn).
      unfold opnd. rewrite Ea. unfold RP.units_before in Hn. rewrite <- !RP.pre_sumZ in Hn.
      fold instrs in Hn. rewrite Hv in Hn. inversion Hn as [Ev].
      split; [unfold zlen; lia|]. unfold jt, RP.mult. reflexivity.
    - destruct (nth_error_lt_Some vals0 k) as [v0 Hv0].
      { rewrite len_vals0. apply (nth_error_Some_lt _ _ _ Hi). }
      pose proof (relax_nonjump c blocks _ _ _ Hrelax k i Hi Hj) as E.
      rewrite (afo_nth _ _ _ _ _ _ Hi Hv0) in E. rewrite Hv in E. inversion E as [Ev]. clear E.
      pose proof (RP.Forall2_nth_error _ _ _ _ _ _ Hsound Hi Hv0) as Hs. cbv beta in Hs.
      pose proof (RP.Forall2_nth_error _ _ _ _ _ _ Hlit Hi Hv0) as Hl.
      unfold opnd. unfold lit_ok in Hl. unfold RP.is_jump in Hj.
      destruct (i_arg i) as [z | t rel | s ov | s ov | k0 ov | s | s ov | z] eqn:Ea;
        cbn [TS.arg_sound] in Hs.
      + exact Hl.
      + discriminate.
      + destruct Hs as (Hr & _ & s' & Hn & Es). apply str_eqb_spec in Es. subst s'. split; assumption.
      + destruct Hs as (Hr & _ & s' & Hn & Es). apply str_eqb_spec in Es. subst s'. split; assumption.
      + destruct Hs as (Hr & _ & k' & Hn & Es). split; [assumption|]. exists k'. split; assumption.
      + rewrite ncell_eq. apply TS.index_of_sound in Hs. destruct Hs as (Hr & y & Hn & Es).
        apply str_eqb_spec in Es. subst y. split; [lia|].
        replace (v0 + zlen cellvars - zlen cellvars) with v0 by lia. exact Hn.
      + destruct Hs as (Hr & _ & s' & Hn & Es). apply str_eqb_spec in Es. subst s'. split; assumption.
      + exact Hl.
  Qed.

  Lemma jt_le t : (jt t <= nI)%nat.
  Proof. apply firstn_concat_le. Qed.

  Lemma val_ok_at k i v : nth_error instrs k = Some i -> nth_error vals k = Some v -> val_ok c i v.
  Proof.
    intros Hi Hv. pose proof (opnd_at k i v Hi Hv) as Ho.
    pose proof wf_fits as Hf. rewrite Forall_forall in Hf. specialize (Hf i (nth_error_In _ _ Hi)).
    apply fits_inv in Hf. destruct Hf as (_ & _ & _ & _ & _ & Hf).
    destruct total_units as [Htot Hcnt]. destruct table_bounds as (B1 & B2 & B3 & B4).
    destruct (one_class c Hcfg (i_name i)) as (C1 & C2 & C3 & C4 & C5 & C6).
    pose proof (RP.mult_cases c) as Hm.
    unfold opnd in Ho. unfold val_ok.
    destruct (i_arg i) as [z | t rel | s ov | s ov | k0 ov | s | s ov | z] eqn:Ea.
    - subst v. split_andb. lia.
    - destruct Ho as [Ht ->].
      pose proof (pre_mono instrs vals (jt t) nI wf_nov (jt_le t)) as M1.
      pose proof (pre_nonneg instrs vals (jt t) wf_nov) as M0.
      destruct rel.
      + destruct (C2 Hf) as (_ & _ & _ & _ & _ & Hge).
        destruct (jumps_ok_nth blocks 0 (zlen blocks) k i t true wf_jumps Hi Ea) as [_ Hrel].
        specialize (Hrel eq_refl). rewrite Z.sub_0_r in Hrel. fold (jt t) in Hrel.
        pose proof (pre_mono instrs vals (S k) (jt t) wf_nov Hrel) as M2.
        pose proof (pre_nonneg instrs vals (S k) wf_nov) as M3.
        destruct Hm as [-> | ->]; lia.
      + destruct (C1 Hf) as (_ & _ & _ & _ & _ & Hge). destruct Hm as [-> | ->]; lia.
    - split_andb. match goal with H : zmem _ (cfg_hasname c) = true |- _ =>
        destruct (C3 H) as (_ & _ & _ & _ & _ & Hge) end. lia.
    - split_andb. match goal with H : zmem _ (cfg_haslocal c) = true |- _ =>
        destruct (C4 H) as (_ & _ & _ & _ & _ & Hge) end. lia.
    - split_andb. match goal with H : zmem _ (cfg_hasconst c) = true |- _ =>
        destruct (C6 H) as (_ & _ & _ & _ & _ & Hge) end. lia.
    - destruct (C5 Hf) as (_ & _ & _ & _ & _ & Hge).
      destruct Ho as [Ho _]. unfold zlen in *. lia.
    - split_andb. match goal with H : zmem _ (cfg_hasfree c) = true |- _ =>
        destruct (C5 H) as (_ & _ & _ & _ & _ & Hge) end. lia.
    - subst v. split_andb. lia.
  Qed.

  Lemma vals_ok : Forall2 (val_ok c) instrs vals.
  Proof.
    apply Forall2_of_nth; [symmetry; exact len_vals|]. intros k i v Hi Hv. eapply val_ok_at; eauto.
  Qed.

  (** ** the emitted code parses back; dis reads the same instructions *)
  Let ps := IC.layout 0 (specs instrs vals).
  Let dl := dis_fold c names varnames freevars cellvars consts (dis_unpack c code 0 0) None.

  Lemma code_facts : code_ok c code = true /\ parse_bytes c code 0 0 0 = OK ps.
  Proof.
    rewrite (proj1 asm_facts). exact (emitted_code c Hext instrs vals wf_nov wf_op vals_ok).
  Qed.

  Lemma dis_fold_eq : dl = map (DV.pview c names varnames freevars cellvars consts) ps.
  Proof.
    destruct code_facts as [Hok Hp]. destruct (DV.ops_wf_spec c Hcfg) as [HE _].
    exact (proj1 (DV.parse_dis_gen c names varnames freevars cellvars consts HE code 0 0 0 ps Hok
                    (Z.le_refl 0) (Z.le_refl 0) eq_refl (fun _ => eq_refl) Hp)).
  Qed.

  Lemma pview_first p :
    fst (fst (DV.pview c names varnames freevars cellvars consts p)) = BP.p_first p.
  Proof. destruct p as [[[[op a] n] f] nx]. reflexivity. Qed.

  Lemma firsts_eq : map (fun x : Z * Z * dval C => fst (fst x)) dl = map BP.p_first ps.
  Proof. rewrite dis_fold_eq, map_map. apply map_ext. intros p. apply pview_first. Qed.

  Lemma firsts_nodup : NoDup (map BP.p_first ps).
  Proof.
    apply BP.incr_NoDup. exact (proj1 (BP.parse_bytes_offsets c code ps (proj2 code_facts))).
  Qed.

  Lemma ps_length : length ps = nI.
  Proof.
    unfold ps. rewrite layout_length, specs_length; [reflexivity|]. symmetry. exact len_vals.
  Qed.

  Lemma ps_nth k i v : nth_error instrs k = Some i -> nth_error vals k = Some v ->
    nth_error ps k
    = Some (i_name i, v, instrsize v, 2 * RP.pre k instrs vals, 2 * RP.pre (S k) instrs vals).
  Proof.
    intros Hi Hv. unfold ps. rewrite (layout_nth instrs vals 0 k i v wf_nov Hi Hv).
    reflexivity.
  Qed.

  Lemma dl_nth k i v : nth_error instrs k = Some i -> nth_error vals k = Some v ->
    nth_error dl k
    = Some (2 * RP.pre k instrs vals, i_name i,
            dis_argval c names varnames freevars cellvars consts (2 * RP.pre (S k) instrs vals - 2)
                       (i_name i) (if i_name i >=? cfg_have_argument c then Some v else None)).
  Proof.
    intros Hi Hv. rewrite dis_fold_eq, nth_error_map, (ps_nth k i v Hi Hv). reflexivity.
  Qed.

  (** ** jump targets as instruction indices *)
  Lemma target_index t : 0 <= t < zlen blocks ->
    index_of_offset dl (2 * RP.pre (jt t) instrs vals) = Z.of_nat (jt t) /\
    znth (block_first_indices blocks 0) t = Some (Z.of_nat (jt t)).
  Proof.
    intros Ht. assert (Hlt : (Z.to_nat t < length blocks)%nat) by (unfold zlen in Ht; lia).
    split.
    - unfold index_of_offset. rewrite firsts_eq.
      assert (Hj : (jt t < nI)%nat) by (apply firstn_concat_lt; [exact wf_nonempty|exact Hlt]).
      destruct (nth_error_lt_Some instrs (jt t) Hj) as [i Hi].
      destruct (nth_error_lt_Some vals (jt t)) as [v Hv]; [rewrite len_vals; exact Hj|].
      rewrite (DV.index_of_nth _ (jt t) _ firsts_nodup); [reflexivity|].
      rewrite nth_error_map, (ps_nth _ _ _ Hi Hv). reflexivity.
    - rewrite DV.znth_nonneg by lia. rewrite bfi_nth by exact Hlt. unfold jt. f_equal.
  Qed.

  (** ** what dis resolves for instruction [k] *)
  Definition dv_rel (i : instr_ C) (dv : dval C) : Prop :=
    match i_arg i with
    | AInt z => dv = DInt z
    | AJump t rel => dv = DJump (2 * RP.pre (jt t) instrs vals) rel
    | AName s _ => dv = DName s
    | AVarname s _ => dv = DLocal s
    | AConst k0 _ => exists k', dv = DConst k' /\ keq k' k0 = true
    | AFreevar s => dv = DFree s
    | ACellvar s _ => dv = DCell s
    | ANoArg _ => dv = DNoArg
    end.

  Lemma argval_at k i v : nth_error instrs k = Some i -> nth_error vals k = Some v ->
    dv_rel i (dis_argval c names varnames freevars cellvars consts (2 * RP.pre (S k) instrs vals - 2)
                         (i_name i) (if i_name i >=? cfg_have_argument c then Some v else None)).
  Proof.
    intros Hi Hv. pose proof (opnd_at k i v Hi Hv) as Ho.
    pose proof wf_fits as Hf. rewrite Forall_forall in Hf. specialize (Hf i (nth_error_In _ _ Hi)).
    apply fits_inv in Hf. destruct Hf as (_ & _ & _ & _ & _ & Hf).
    destruct (one_class c Hcfg (i_name i)) as (C1 & C2 & C3 & C4 & C5 & C6).
    unfold opnd in Ho. unfold dv_rel.
    destruct (i_arg i) as [z | t rel | s ov | s ov | k0 ov | s | s ov | z] eqn:Ea.
    - subst v. split_andb.
      assert (G : i_name i >=? cfg_have_argument c = true) by lia. rewrite G.
      match goal with H : in_no_class _ _ = true |- _ => unfold in_no_class in H; rename H into Hnc end.
      unfold dis_argval.
      destruct (zmem (i_name i) (cfg_hasjabs c)), (zmem (i_name i) (cfg_hasjrel c)),
        (zmem (i_name i) (cfg_hasname c)), (zmem (i_name i) (cfg_haslocal c)),
        (zmem (i_name i) (cfg_hasfree c)), (zmem (i_name i) (cfg_hasconst c));
        cbn in Hnc; try discriminate Hnc; reflexivity.
    - destruct Ho as [Ht ->]. destruct rel.
      + destruct (C2 Hf) as (E1 & E3 & E4 & E5 & E6 & Hge).
        assert (G : i_name i >=? cfg_have_argument c = true) by lia. rewrite G.
        unfold dis_argval. rewrite E6, E3, E1, Hf. f_equal. unfold RP.mult.
        destruct (cfg_v310 c); lia.
      + destruct (C1 Hf) as (E2 & E3 & E4 & E5 & E6 & Hge).
        assert (G : i_name i >=? cfg_have_argument c = true) by lia. rewrite G.
        unfold dis_argval. rewrite E6, E3, Hf. f_equal. unfold RP.mult.
        destruct (cfg_v310 c); lia.
    - apply andb_true_iff in Hf as [Hc _].
      destruct (C3 Hc) as (E1 & E2 & E4 & E5 & E6 & Hge).
      assert (G : i_name i >=? cfg_have_argument c = true) by lia. rewrite G.
      unfold dis_argval. rewrite E6, Hc. destruct Ho as [Hr Hn].
      rewrite DV.znth_nonneg by lia. rewrite Hn. reflexivity.
    - apply andb_true_iff in Hf as [Hc _].
      destruct (C4 Hc) as (E1 & E2 & E3 & E5 & E6 & Hge).
      assert (G : i_name i >=? cfg_have_argument c = true) by lia. rewrite G.
      unfold dis_argval. rewrite E6, E3, E1, E2, Hc. destruct Ho as [Hr Hn].
      rewrite DV.znth_nonneg by lia. rewrite Hn. reflexivity.
    - apply andb_true_iff in Hf as [Hc _].
      destruct (C6 Hc) as (E1 & E2 & E3 & E4 & E5 & Hge).
      assert (G : i_name i >=? cfg_have_argument c = true) by lia. rewrite G.
      unfold dis_argval. rewrite Hc. destruct Ho as (Hr & k' & Hn & Ek).
      rewrite DV.znth_nonneg by lia. rewrite Hn. exists k'. split; [reflexivity|exact Ek].
    - destruct (C5 Hf) as (E1 & E2 & E3 & E4 & E6 & Hge).
      assert (G : i_name i >=? cfg_have_argument c = true) by lia. rewrite G.
      unfold dis_argval. rewrite E6, E3, E1, E2, E4, Hf. destruct Ho as [Hr Hn].
      assert (L0 : 0 <= zlen cellvars) by (unfold zlen; lia).
      rewrite DV.znth_nonneg by lia.
      rewrite nth_error_app2 by (unfold zlen in *; lia).
      replace (Z.to_nat v - length cellvars)%nat with (Z.to_nat (v - zlen cellvars))
        by (unfold zlen in *; lia).
      rewrite Hn. destruct (v <? zlen cellvars) eqn:E; [lia|reflexivity].
    - apply andb_true_iff in Hf as [Hc _].
      destruct (C5 Hc) as (E1 & E2 & E3 & E4 & E6 & Hge).
      assert (G : i_name i >=? cfg_have_argument c = true) by lia. rewrite G.
      unfold dis_argval. rewrite E6, E3, E1, E2, E4, Hc. destruct Ho as [Hr Hn].
      rewrite DV.znth_nonneg by lia.
      rewrite nth_error_app1 by (unfold zlen in *; lia).
      rewrite Hn. destruct (v <? zlen cellvars) eqn:E; [reflexivity|lia].
    - split_andb.
      assert (G : i_name i >=? cfg_have_argument c = false) by lia. rewrite G. reflexivity.
  Qed.

  Definition resolve (dv : dval C) : dval C :=
    match dv with DJump t rel => DJump (index_of_offset dl t) rel | _ => dv end.

  Lemma view_at k i v : nth_error instrs k = Some i -> nth_error vals k = Some v ->
    val_match keq (data_val (block_first_indices blocks 0) (i_arg i))
      (resolve (dis_argval c names varnames freevars cellvars consts (2 * RP.pre (S k) instrs vals - 2)
                        (i_name i) (if i_name i >=? cfg_have_argument c then Some v else None)))
    = true.
  Proof.
    intros Hi Hv. pose proof (argval_at k i v Hi Hv) as H. pose proof (opnd_at k i v Hi Hv) as Ho.
    unfold dv_rel in H. unfold opnd in Ho. unfold resolve.
    destruct (i_arg i) as [z | t rel | s ov | s ov | k0 ov | s | s ov | z] eqn:Ea; cbn [data_val].
    - rewrite H. cbn [val_match]. apply Z.eqb_refl.
    - rewrite H. destruct Ho as [Ht _]. destruct (target_index t Ht) as [X1 X2]. rewrite X1, X2.
      cbn [val_match]. rewrite Z.eqb_refl, Bool.eqb_reflx. reflexivity.
    - rewrite H. cbn [val_match]. apply TS.str_eqb_refl.
    - rewrite H. cbn [val_match]. apply TS.str_eqb_refl.
    - destruct H as (k' & -> & Ek). cbn [val_match]. exact Ek.
    - rewrite H. cbn [val_match]. apply TS.str_eqb_refl.
    - rewrite H. cbn [val_match]. apply TS.str_eqb_refl.
    - rewrite H. reflexivity.
  Qed.

  (** ** the three parts *)
  Lemma part_view table first :
    list_eqb (fun (x y : vinstr C) => (v_op x =? v_op y) && val_match keq (v_val x) (v_val y))
             (data_view blocks)
             (dis_view c code names varnames freevars cellvars consts table first) = true.
  Proof.
    apply list_eqb_Forall2. unfold data_view, dis_view. cbv zeta.
    change (dis_fold c names varnames freevars cellvars consts (dis_unpack c code 0 0) None) with dl.
    change (concat blocks) with instrs.
    apply Forall2_of_nth.
    - rewrite !map_length. rewrite dis_fold_eq, map_length, ps_length. reflexivity.
    - intros k x y Hxx Hy. rewrite nth_error_map in Hxx, Hy.
      destruct (nth_error instrs k) as [i|] eqn:Hi; [|discriminate].
      destruct (nth_error_lt_Some vals k) as [v Hv];
        [rewrite len_vals; exact (nth_error_Some_lt _ _ _ Hi)|].
      rewrite (dl_nth k i v Hi Hv) in Hy. cbn [option_map] in Hxx, Hy.
      injection Hxx as <-. injection Hy as <-. cbn [v_op v_val].
      rewrite Z.eqb_refl. cbn [andb]. exact (view_at k i v Hi Hv).
  Qed.

  Lemma part_layout :
    length vals = length instrs /\
    lm = {| lm_lines := lines_of_layout (layout_of instrs vals 0); lm_adds := [] |} /\
    layout_ok (layout_of instrs vals 0) 0 = true /\
    map (fun x : layout_item => fst (fst x)) (layout_of instrs vals 0)
    = map (fun x : Z * Z * dval C => fst (fst x)) dl.
  Proof.
    split; [exact len_vals|]. split; [exact (proj2 asm_facts)|].
    split; [apply layout_of_ok; exact wf_nov|].
    rewrite firsts_eq. apply layout_firsts. exact wf_nov.
  Qed.
End Main.

(* ------------------------------------------------------------------ *)
(** * 7. K2, code part *)

(* the conclusion of S_K2_code *)
Definition K2_concl {C : Type} (keq : C -> C -> bool) (c : cfg) (blocks : list (list (instr_ C)))
  (freevars : list str) (code : list Z) (lm : linemap) (names varnames cellvars : list str)
  (consts : list C) : Prop :=
  code_ok c code = true /\
  (exists vals, length vals = length (concat blocks) /\
                lm = {| lm_lines := lines_of_layout (layout_of (concat blocks) vals 0); lm_adds := [] |} /\
                layout_ok (layout_of (concat blocks) vals 0) 0 = true /\
                map (fun x : layout_item => fst (fst x)) (layout_of (concat blocks) vals 0)
                = map (fun x : Z * Z * dval C => fst (fst x))
                      (dis_fold c names varnames freevars cellvars consts (dis_unpack c code 0 0) None)) /\
  forall table first,
    list_eqb (fun (x y : vinstr C) => (v_op x =? v_op y) && val_match keq (v_val x) (v_val y))
             (data_view blocks)
             (dis_view c code names varnames freevars cellvars consts table first) = true.

(* the weakest side condition, on the result: EXTENDED_ARG is a byte and the two tables that are
   not filled by the instructions (parameter names preset in varnames, freevars) are below 2^31 *)
Definition k2_out_ok (c : cfg) (varnames cellvars freevars : list str) : bool :=
  (0 <=? cfg_extended_arg c) && (cfg_extended_arg c <? 256)
  && (zlen varnames <=? 2147483648) && (zlen cellvars + zlen freevars <=? 2147483648).

Theorem K2_code_gen :
  forall (C : Type) (keq : C -> C -> bool) is_str none_c str_c,
  (forall x, keq x x = true) -> (forall x y, keq x y = keq y x) ->
  (forall x y z, keq x y = true -> keq y z = true -> keq x z = true) ->
  forall c (blocks : list (list (instr_ C))) freevars bt code lm names varnames cellvars consts,
  cfg_ops_wf c = true -> blocks_wf c blocks = true ->
  k2_out_ok c varnames cellvars freevars = true ->
  blocks_to_bytes keq is_str none_c str_c c blocks [] freevars bt
    = OK (code, lm, names, varnames, cellvars, consts) ->
  zlen code < 1073741824 ->
  K2_concl keq c blocks freevars code lm names varnames cellvars consts.
Proof.
  intros C keq is_str none_c str_c Kr Ks Kt c blocks freevars bt code lm names varnames cellvars consts
         Hcfg Hwf Hx HB Hcode.
  destruct (b2b_inv c keq is_str none_c str_c blocks freevars bt code lm names varnames cellvars consts HB)
    as (st0 & vals0 & st & vals & Hinit & Hfirst & Hrelax & Hasm & T1 & T2 & T3 & T4).
  unfold k2_out_ok in Hx. split_andb.
  assert (Hext : 0 <= cfg_extended_arg c < 256) by lia.
  assert (HvarB : zlen varnames <= 2147483648) by lia.
  assert (HfreeB : zlen cellvars + zlen freevars <= 2147483648) by lia.
  split; [|split].
  - eapply (fun H => proj1 (code_facts keq is_str none_c str_c Kr Ks Kt c blocks freevars bt code lm
                               names varnames cellvars consts st0 st vals0 vals Hcfg Hwf Hext HvarB HfreeB
                               Hcode Hinit Hfirst Hrelax Hasm T1 T2 T3 H)). exact T4.
  - exists vals.
    exact (part_layout keq is_str none_c str_c Kr Ks Kt c blocks freevars bt code lm names varnames
             cellvars consts st0 st vals0 vals Hcfg Hwf Hext HvarB HfreeB Hcode Hinit Hfirst Hrelax Hasm
             T1 T2 T3 T4).
  - intros table first.
    exact (part_view keq is_str none_c str_c Kr Ks Kt c blocks freevars bt code lm names varnames
             cellvars consts st0 st vals0 vals Hcfg Hwf Hext HvarB HfreeB Hcode Hinit Hfirst Hrelax Hasm
             T1 T2 T3 T4 table first).
Qed.

(* the side condition on the input implies the one on the result *)
Lemma k2_extra_out :
  forall (C : Type) (keq : C -> C -> bool) is_str none_c str_c,
  (forall x, keq x x = true) -> (forall x y, keq x y = keq y x) ->
  (forall x y z, keq x y = true -> keq y z = true -> keq x z = true) ->
  forall c (blocks : list (list (instr_ C))) freevars bt code lm names varnames cellvars consts,
  blocks_wf c blocks = true -> k2_extra c bt freevars = true ->
  blocks_to_bytes keq is_str none_c str_c c blocks [] freevars bt
    = OK (code, lm, names, varnames, cellvars, consts) ->
  zlen code < 1073741824 ->
  k2_out_ok c varnames cellvars freevars = true.
Proof.
  intros C keq is_str none_c str_c Kr Ks Kt c blocks freevars bt code lm names varnames cellvars consts
         Hwf Hx HB Hcode.
  destruct (b2b_inv c keq is_str none_c str_c blocks freevars bt code lm names varnames cellvars consts HB)
    as (st0 & vals0 & st & vals & Hinit & Hfirst & Hrelax & Hasm & T1 & T2 & T3 & T4).
  destruct (table_bounds keq is_str none_c str_c Kr Ks Kt c blocks freevars bt names varnames cellvars
              consts st0 st vals0 Hinit Hfirst T1 T2 T3 T4) as (_ & B2 & _ & B4).
  destruct (total_units keq none_c Kr Ks Kt c blocks code lm st vals0 vals Hwf Hrelax Hasm) as [U1 U2].
  unfold k2_extra in Hx. unfold k2_out_ok. split_andb.
  assert (A : match bt with Some f => zlen (args_to_varnames (fn_args f)) | None => 0 end < 1073741824)
    by (destruct bt; lia).
  lia.
Qed.

(* S_K2_code with the additional boolean premise [k2_extra c bt freevars = true]:
   - EXTENDED_ARG is a byte (code_ok wants every opcode byte in 0..255; cfg_ops_wf and blocks_wf
     say nothing about cfg_extended_arg);
   - fewer than 2^30 free variables and fewer than 2^30 parameter names preset by the block type
     (these two tables are not filled by the instructions, so their indices are not bounded by the
     length of the code; an operand >= 2^31 breaks code_ok, one >= 2^32 is truncated). *)
Definition S_K2_code_fixed : Prop :=
  forall (C : Type) (keq : C -> C -> bool) is_str none_c str_c,
  (forall x, keq x x = true) -> (forall x y, keq x y = keq y x) ->
  (forall x y z, keq x y = true -> keq y z = true -> keq x z = true) ->
  forall c (blocks : list (list (instr_ C))) freevars bt code lm names varnames cellvars consts,
  cfg_ops_wf c = true -> blocks_wf c blocks = true -> nodup_str freevars = true ->
  k2_extra c bt freevars = true ->
  blocks_to_bytes keq is_str none_c str_c c blocks [] freevars bt
    = OK (code, lm, names, varnames, cellvars, consts) ->
  zlen code < 1073741824 ->
  code_ok c code = true /\
  (exists vals, length vals = length (concat blocks) /\
                lm = {| lm_lines := lines_of_layout (layout_of (concat blocks) vals 0); lm_adds := [] |} /\
                layout_ok (layout_of (concat blocks) vals 0) 0 = true /\
                map (fun x : layout_item => fst (fst x)) (layout_of (concat blocks) vals 0)
                = map (fun x : Z * Z * dval C => fst (fst x))
                      (dis_fold c names varnames freevars cellvars consts (dis_unpack c code 0 0) None)) /\
  forall table first,
    list_eqb (fun (x y : vinstr C) => (v_op x =? v_op y) && val_match keq (v_val x) (v_val y))
             (data_view blocks)
             (dis_view c code names varnames freevars cellvars consts table first) = true.

Theorem K2_code : S_K2_code_fixed.
Proof.
  intros C keq is_str none_c str_c Kr Ks Kt c blocks freevars bt code lm names varnames cellvars consts
         Hcfg Hwf _ Hx HB Hcode.
  exact (K2_code_gen C keq is_str none_c str_c Kr Ks Kt c blocks freevars bt code lm names varnames
           cellvars consts Hcfg Hwf
           (k2_extra_out C keq is_str none_c str_c Kr Ks Kt c blocks freevars bt code lm names varnames
              cellvars consts Hwf Hx HB Hcode) HB Hcode).
Qed.

(* S_K2_code itself follows for every configuration whose EXTENDED_ARG is a byte, when the block type
   and the free variables are of ordinary size *)
Corollary K2_code_of_S : forall c bt freevars, k2_extra c bt freevars = true ->
  forall (C : Type) (keq : C -> C -> bool) is_str none_c str_c,
  (forall x, keq x x = true) -> (forall x y, keq x y = keq y x) ->
  (forall x y z, keq x y = true -> keq y z = true -> keq x z = true) ->
  forall (blocks : list (list (instr_ C))) code lm names varnames cellvars consts,
  cfg_ops_wf c = true -> blocks_wf c blocks = true -> nodup_str freevars = true ->
  blocks_to_bytes keq is_str none_c str_c c blocks [] freevars bt
    = OK (code, lm, names, varnames, cellvars, consts) ->
  zlen code < 1073741824 ->
  K2_concl keq c blocks freevars code lm names varnames cellvars consts.
Proof.
  intros c bt freevars Hx C keq is_str none_c str_c Kr Ks Kt blocks code lm names varnames cellvars consts
         Hcfg Hwf Hnd HB Hcode.
  exact (K2_code C keq is_str none_c str_c Kr Ks Kt c blocks freevars bt code lm names varnames cellvars
           consts Hcfg Hwf Hnd Hx HB Hcode).
Qed.

(* ------------------------------------------------------------------ *)
(** * 8. Counterexample: S_K2_code is false as written *)

(* EXTENDED_ARG = 1000 passes cfg_ops_wf (which only asks HAVE_ARGUMENT <= EXTENDED_ARG); the operand
   256 needs one prefix, the emitted unit [1000; 1] is not a pair of bytes. *)
Definition cex_cfg : cfg :=
  {| cfg_v310 := false; cfg_v38 := true; cfg_hasjabs := []; cfg_hasjrel := [];
     cfg_hasname := []; cfg_haslocal := []; cfg_hasfree := []; cfg_hasconst := [];
     cfg_have_argument := 90; cfg_extended_arg := 1000; cfg_opcodes := [100]; cfg_flags := [] |}.
Definition cex_blocks : list (list (instr_ unit)) := [[mkInstr 100 (AInt 256) None None []]].

Lemma cex_premises :
  cfg_ops_wf cex_cfg = true /\ blocks_wf cex_cfg cex_blocks = true /\
  blocks_to_bytes (fun _ _ : unit => true) (fun _ => false) tt (fun _ => tt) cex_cfg cex_blocks [] [] None
  = OK ([1000; 1; 100; 0], {| lm_lines := [(0, None); (2, None)]; lm_adds := [] |}, [], [], [], []) /\
  code_ok cex_cfg [1000; 1; 100; 0] = false /\
  k2_extra cex_cfg None [] = false.
Proof. vm_compute. repeat split; reflexivity. Qed.

Theorem S_K2_code_false : ~ S_K2_code.
Proof.
  intros H. destruct cex_premises as (P1 & P2 & P3 & P4 & _).
  destruct (H unit (fun _ _ => true) (fun _ => false) tt (fun _ => tt)
              (fun _ => eq_refl) (fun _ _ => eq_refl) (fun _ _ _ _ _ => eq_refl)
              cex_cfg cex_blocks [] None _ _ _ _ _ _ P1 P2 eq_refl P3) as [Hc _].
  - vm_compute. reflexivity.
  - rewrite P4 in Hc. discriminate.
Qed.

(* The other two conjuncts of k2_extra, at a reduced scale: the operand of a single instruction is
   the index of its name in a table that the instructions do not fill - the parameter names preset
   by the block type (300 parameters called "x": the name resolves to the last one, index 299), or
   the free variables (300 of them).  With 2^31 + 1 entries instead of 300 the operand is 2^31, the
   emitted prefix bytes are 128 0 0 and code_ok fails; the code is 8 bytes long. *)
Definition cex2_cfg : cfg :=
  {| cfg_v310 := false; cfg_v38 := true; cfg_hasjabs := []; cfg_hasjrel := [];
     cfg_hasname := []; cfg_haslocal := [124]; cfg_hasfree := [136]; cfg_hasconst := [];
     cfg_have_argument := 90; cfg_extended_arg := 144; cfg_opcodes := [124; 136]; cfg_flags := [] |}.
Definition cex2_bt (n : nat) : option function :=
  Some {| fn_args := {| a_posonly := repeat [120] n; a_poskw := []; a_varpos := None;
                        a_kwonly := []; a_varkw := None |};
          fn_doc := None; fn_type := None |}.

Remark preset_parameters_not_bounded_by_code :
  cfg_ops_wf cex2_cfg = true /\
  blocks_wf cex2_cfg [[mkInstr 124 (@AVarname unit [120] None) None None []]] = true /\
  match blocks_to_bytes (fun _ _ : unit => true) (fun _ => false) tt (fun _ => tt) cex2_cfg
          [[mkInstr 124 (AVarname [120] None) None None []]] [] [] (cex2_bt 300) with
  | OK (code, _, _, varnames, _, _) => code = [144; 1; 124; 43] /\ length varnames = 300%nat
  | Err _ => False
  end.
Proof. vm_compute. repeat split; reflexivity. Qed.

Remark freevars_not_bounded_by_code :
  let fv := map (fun n => [Z.of_nat n]) (seq 0 300) in
  nodup_str fv = true /\
  blocks_wf cex2_cfg [[mkInstr 136 (@AFreevar unit [299]) None None []]] = true /\
  match blocks_to_bytes (fun _ _ : unit => true) (fun _ => false) tt (fun _ => tt) cex2_cfg
          [[mkInstr 136 (AFreevar [299]) None None []]] [] fv None with
  | OK (code, _, _, _, _, _) => code = [144; 1; 136; 43]
  | Err _ => False
  end.
Proof. vm_compute. repeat split; reflexivity. Qed.

Print Assumptions K2_code.
Print Assumptions K2_code_gen.
Print Assumptions S_K2_code_false.
