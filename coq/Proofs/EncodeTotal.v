(* C03, totality: to_code returns a code object for every well-formed datum.

   [encode_total : S_encode_total enc_ok] where [enc_ok] (below) is the conjunction of the four
   conditions under which the remaining exception branches of encode_code are not taken:
     1. cd_stacksize >= 0                         (types.CodeType raises ValueError otherwise);
     2. every free-variable operand names a declared free variable
                                                  (tuple.index raises ValueError otherwise);
     3. no positional-only parameter before 3.8   (to_code raises NotImplementedError otherwise);
     4. every flag the datum needs is a member of the configuration's _CodeFlag with a non-negative
        value                                     (getattr raises AttributeError / CodeType ValueError).
   Nothing is required of line numbers, of cd_firstline, of the parameter names (the assertion on the
   co_varnames prefix cannot fail: [EncodeTotal1.enc_init_ok]), of operand sizes.
   [enc_ok] is also necessary: [encode_total_conv] (data_wf and a returned code object imply enc_ok),
   so it is the weakest premise. *)
From Coq Require Import ZArith List Bool Lia ZifyBool.
From PCD Require Import Base.PyBase Base.Cfg Model.Flags Model.Args Model.Data Model.Consts
  Model.LineTable Model.Blocks Model.CodeData Spec.Lnotab Spec.Dis Model.ViewSer
  Proofs.C02_Statements Proofs.C11_Statements Proofs.C01_Statements Proofs.C03_Statements
  Proofs.C03b_Statements Proofs.C03c_Statements.
From PCD Require Import Proofs.Total_Statements.
From PCD Require Proofs.RelaxProofs Proofs.EncodeView Proofs.LinesCarried Proofs.EncodeCorrect.
From PCD Require Import Proofs.EncodeTotal1 Proofs.EncodeTotal2.
From PCD Require Gen.Cfg37 Gen.Cfg38 Gen.Cfg39 Gen.Cfg310.
Import ListNotations. Open Scope Z_scope.

Module LC := LinesCarried.

(* ------------------------------------------------------------------ *)
(** * 1. The premise *)

(* the flag is a member of the configuration's _CodeFlag and its value is not negative *)
Definition flag_expressible (c : cfg) (f : flag) : bool :=
  match flag_value (cfg_flags c) f with Some v => 0 <=? v | None => false end.

(* the flags to_code sets: function flags, the function type, VARARGS / VARKEYWORDS, NOFREE when
   the code has neither free nor cell variables, the annotations future, NESTED *)
Definition needed_flags (d : code_data_ pconst) : list flag :=
  (match cd_type d with
   | Some f => FN_FLAGS
               ++ (match fn_type f with Some t => [fntype_flag t] | None => [] end)
               ++ (if str_truthy (a_varpos (fn_args f)) then [VARARGS] else [])
               ++ (if str_truthy (a_varkw (fn_args f)) then [VARKEYWORDS] else [])
   | None => []
   end)
  ++ (match cd_freevars d with [] => if has_cell (cd_blocks d) then [] else [NOFREE] | _ :: _ => [] end)
  ++ (if cd_future_annotations d then [F_annotations] else [])
  ++ (if cd_nested d then [NESTED] else []).

(* every free-variable operand names one of the datum's free variables *)
Definition freevars_declared (d : code_data_ pconst) : bool :=
  forallb (forallb (fun i : instr_ pconst =>
                      match i_arg i with
                      | AFreevar s => existsb (str_eqb s) (cd_freevars d)
                      | _ => true
                      end)) (cd_blocks d).

Definition no_posonly (d : code_data_ pconst) : bool :=
  match cd_type d with
  | Some f => match a_posonly (fn_args f) with [] => true | _ :: _ => false end
  | None => true
  end.

Definition enc_ok (c : cfg) (d : code_data_ pconst) : bool :=
  (0 <=? cd_stacksize d)
  && freevars_declared d
  && (cfg_v38 c || no_posonly d)
  && forallb (flag_expressible c) (needed_flags d).

(* ------------------------------------------------------------------ *)
(** * 2. Flags *)

Lemma In_flag_add f g l : In f (flag_add g l) -> f = g \/ In f l.
Proof.
  unfold flag_add. destruct (flag_mem g l); [auto|]. intros H.
  apply in_app_iff in H as [H|[H|[]]]; auto.
Qed.

Lemma In_flags_union f : forall b a, In f (flags_union a b) -> In f a \/ In f b.
Proof.
  unfold flags_union. induction b as [|g r IH]; intros a H; cbn [fold_left] in H; [auto|].
  apply IH in H as [H|H]; [|right; right; exact H].
  apply In_flag_add in H as [->|H]; [right; left; reflexivity|left; exact H].
Qed.

Lemma from_flags_data_ok c : forall fs,
  (forall f, In f fs -> flag_expressible c f = true) ->
  exists w, from_flags_data c fs = OK w /\ 0 <= w.
Proof.
  induction fs as [|f r IH]; intros H.
  - exists 0. split; [reflexivity|lia].
  - cbn [from_flags_data]. pose proof (H f (or_introl eq_refl)) as Hf. unfold flag_expressible in Hf.
    destruct (flag_value (cfg_flags c) f) as [v|]; [|discriminate].
    destruct IH as (w & -> & Hw); [intros g Hg; apply H; right; exact Hg|].
    exists (Z.lor v w). split; [reflexivity|]. apply Z.lor_nonneg. lia.
Qed.

Lemma take_app_len {A} (l r : list A) : take (zlen l) (l ++ r) = l.
Proof.
  unfold take, zlen. rewrite Nat2Z.id, firstn_app, Nat.sub_diag, firstn_all. cbn [firstn].
  apply app_nil_r.
Qed.

Lemma str_list_eqb_refl (l : list str) : list_eqb str_eqb l l = true.
Proof. apply (list_eqb_spec str_eqb str_eqb_spec). reflexivity. Qed.

Ltac flag_cases :=
  repeat match goal with
         | H : In _ (flag_add _ _) |- _ => apply In_flag_add in H as [->|H]
         | H : In _ (flags_union _ _) |- _ => apply In_flags_union in H as [H|H]
         end.

(* ------------------------------------------------------------------ *)
(** * 3. The theorem *)

Theorem encode_total : S_encode_total enc_ok.
Proof.
  unfold S_encode_total. intros c d.
  destruct d as [blocks fname fline name stack ty fvs fut nested al aa].
  unfold data_wf, enc_ok, freevars_declared, no_posonly, needed_flags, encode_code.
  cbn [cd_blocks cd_filename cd_firstline cd_name cd_stacksize cd_type cd_freevars
       cd_future_annotations cd_nested cd_addline cd_addargs].
  intros H. apply andb_true_iff in H as [Hwf Hok].
  apply andb_true_iff in Hwf as [Hwf Hty]. apply andb_true_iff in Hwf as [Hwf Hfvl].
  apply andb_true_iff in Hwf as [Hwf Hnd]. apply andb_true_iff in Hwf as [Hwf Hsome].
  apply andb_true_iff in Hwf as [Hwf Hal]. apply andb_true_iff in Hwf as [Hwf Haa].
  apply andb_true_iff in Hwf as [Hwf Hbw]. apply andb_true_iff in Hwf as [Hwf Hx2].
  apply andb_true_iff in Hwf as [Hcfg Hx1].
  apply andb_true_iff in Hok as [Hok Hfl]. apply andb_true_iff in Hok as [Hok Hpos].
  apply andb_true_iff in Hok as [Hst Hfv].
  destruct aa as [|? ?]; [|discriminate]. destruct al as [?|]; [discriminate|].
  (* blocks_to_bytes *)
  assert (Hgood : Forall (fun i : instr_ pconst => arg_good fvs (i_arg i)) (concat blocks)).
  { pose proof (EncodeView.wf_fits c blocks Hbw) as Hfits.
    apply EncodeCorrect.forallb_concat in Hfv. rewrite forallb_forall in Hfv.
    rewrite Forall_forall in *. intros i Hi. apply (fits_arg_good c); [apply Hfits, Hi|apply Hfv, Hi]. }
  destruct (b2b_total pkey_eqb (fun k : pconst => is_str_const (fst k)) (KInner INone, PInner INone)
              (fun s => (KInner (IStr s), PInner (IStr s))) c blocks fvs ty Hbw Hgood)
    as (code & vals & names & varnames & cellvars & consts & HB & Hlv & [rv Hvn] & Hcv).
  cbv zeta. rewrite HB. cbv beta iota.
  (* the line table *)
  set (L := layout_of (concat blocks) vals 0) in *.
  assert (Hnov : Forall EncodeView.nov (concat blocks)).
  { pose proof (EncodeView.wf_fits c blocks Hbw) as Hfits.
    eapply Forall_impl; [|exact Hfits]. intros i Hi. apply (fits_basic c) in Hi.
    destruct Hi as (_ & H1 & H2). split; assumption. }
  assert (Hlok : layout_ok L 0 = true) by (apply EncodeView.layout_of_ok; exact Hnov).
  assert (HLne : L <> []).
  { apply EncodeCorrect.layout_of_nonempty; [exact Hlv|].
    apply EncodeCorrect.concat_nonempty; [|eapply EncodeView.wf_nonempty; exact Hbw].
    unfold blocks_wf in Hbw. apply andb_true_iff in Hbw as [_ Hb].
    destruct blocks; [discriminate|discriminate]. }
  assert (HLs : cfg_v310 c = false -> forallb (fun x : layout_item => opt_is_some (snd x)) L = true).
  { intros E. rewrite E in Hsome. cbn [orb] in Hsome.
    apply EncodeCorrect.layout_lines_some. apply EncodeCorrect.forallb_concat. exact Hsome. }
  destruct (LC.K2_lines_total c L fline Hlok HLne HLs) as (table & Htab).
  (* the header *)
  destruct ty as [f|].
  - (* a function *)
    cbn [params] in Hvn. subst varnames. unfold args_to_input. cbv beta iota zeta.
    rewrite take_app_len, str_list_eqb_refl.
    match goal with
    | |- context [from_flags_data c ?F] => destruct (from_flags_data_ok c F) as (w & -> & Hw)
    end.
    { rewrite forallb_forall in Hfl. intros g Hg. apply Hfl. clear Hfl Htab.
      revert Hg Hcv.
      destruct (str_truthy (a_varpos (fn_args f))), (str_truthy (a_varkw (fn_args f))),
        (fn_type f) as [t|], fvs as [|fv0 fvr], cellvars as [|cv0 cvr],
        (has_cell blocks), fut, nested;
        intros Hg Hcv; try (exfalso; apply Hcv; reflexivity);
        flag_cases; unfold FN_FLAGS in *; cbn [In app] in *; intuition (subst; auto 12). }
    rewrite Htab.
    assert (Hp : negb (cfg_v38 c) && negb (zlen (a_posonly (fn_args f)) =? 0) = false).
    { destruct (cfg_v38 c); [reflexivity|]. cbn [orb] in Hpos.
      destruct (a_posonly (fn_args f)); [reflexivity|discriminate]. }
    rewrite Hp. unfold pycode_new.
    match goal with
    | |- context [if ?b then Err ValueError else _] =>
        replace b with false by (unfold zlen; lia)
    end.
    eexists. reflexivity.
  - (* a module or class body *)
    match goal with
    | |- context [from_flags_data c ?F] => destruct (from_flags_data_ok c F) as (w & -> & Hw)
    end.
    { rewrite forallb_forall in Hfl. intros g Hg. apply Hfl. clear Hfl Htab.
      revert Hg Hcv.
      destruct fvs as [|fv0 fvr], cellvars as [|cv0 cvr], (has_cell blocks), fut, nested;
        intros Hg Hcv; try (exfalso; apply Hcv; reflexivity);
        flag_cases; cbn [In app] in *; intuition (subst; auto 12). }
    rewrite Htab. cbn [negb andb Z.eqb]. rewrite andb_false_r. unfold pycode_new.
    match goal with
    | |- context [if ?b then Err ValueError else _] =>
        replace b with false by (unfold zlen; lia)
    end.
    eexists. reflexivity.
Qed.

(* ------------------------------------------------------------------ *)
(** * 4. The premise is necessary: it is the weakest one *)

Lemma fntype_flag_plain t : flag_id (fntype_flag t) < 100.
Proof. destruct t; reflexivity. Qed.

Ltac flag_member :=
  repeat first [ apply In_flag_add_l; first [reflexivity|apply fntype_flag_plain]
               | apply In_flag_add_r ];
  cbn [In]; auto 8.

Ltac split_or :=
  repeat match goal with
         | H : _ \/ _ |- _ => destruct H as [<-|H]
         | H : False |- _ => destruct H
         end.

Theorem encode_total_conv : forall c (d : code_data_ pconst) code,
  data_wf c d = true -> encode_code c d = OK code -> enc_ok c d = true.
Proof.
  intros c d code.
  destruct d as [blocks fname fline name stack ty fvs fut nested al aa].
  unfold data_wf, enc_ok, freevars_declared, no_posonly, needed_flags, encode_code.
  cbn [cd_blocks cd_filename cd_firstline cd_name cd_stacksize cd_type cd_freevars
       cd_future_annotations cd_nested cd_addline cd_addargs].
  intros Hwf H.
  apply andb_true_iff in Hwf as [Hwf _]. apply andb_true_iff in Hwf as [Hwf _].
  apply andb_true_iff in Hwf as [Hwf _]. apply andb_true_iff in Hwf as [Hwf _].
  apply andb_true_iff in Hwf as [Hwf Hal]. apply andb_true_iff in Hwf as [_ Haa].
  destruct aa as [|? ?]; [|discriminate]. destruct al as [?|]; [discriminate|].
  cbv zeta in H.
  destruct (blocks_to_bytes _ _ _ _ c blocks [] fvs ty)
    as [[[[[[code0 lm0] names] varnames] cellvars] constants]|e] eqn:HB; [|discriminate].
  destruct (b2b_conv _ _ _ _ _ _ _ _ _ _ _ _ _ _ HB) as [Hfv Hcv].
  cbv beta iota in H.
  destruct ty as [f|].
  - unfold args_to_input in H. cbv beta iota zeta in H.
    destruct (list_eqb str_eqb _ _); [|discriminate].
    destruct (from_flags_data c _) as [w|] eqn:Hfl; [|discriminate].
    destruct (from_line_mapping _ _); [|discriminate].
    destruct (negb (cfg_v38 c) && _) eqn:Hp; [discriminate|].
    unfold pycode_new in H.
    match type of H with context [if ?b then Err ValueError else _] => destruct b eqn:Hc end;
      [discriminate|].
    apply andb_true_iff; split; [apply andb_true_iff; split; [apply andb_true_iff; split|]|].
    + lia.
    + exact Hfv.
    + destruct (cfg_v38 c); [reflexivity|]. cbn [negb andb orb] in *.
      destruct (a_posonly (fn_args f)); [reflexivity|].
      unfold zlen in Hp. cbn [length] in Hp. lia.
    + apply forallb_forall. intros g Hg. unfold flag_expressible.
      apply (from_flags_data_conv c _ w Hfl); [lia|].
      clear - Hg Hcv. revert Hg.
      destruct (has_cell blocks) eqn:Ehc; [destruct cellvars as [|cv0 cvr]|rewrite (Hcv eq_refl)];
        destruct (str_truthy (a_varpos (fn_args f))), (str_truthy (a_varkw (fn_args f))),
          (fn_type f) as [t|], fvs as [|fv0 fvr], fut, nested;
        cbv [flags_union fold_left FN_FLAGS]; cbn [In app]; intros Hg; split_or; flag_member.
  - destruct (from_flags_data c _) as [w|] eqn:Hfl; [|discriminate].
    destruct (from_line_mapping _ _); [|discriminate].
    destruct (negb (cfg_v38 c) && _) eqn:Hp; [discriminate|].
    unfold pycode_new in H.
    match type of H with context [if ?b then Err ValueError else _] => destruct b eqn:Hc end;
      [discriminate|].
    apply andb_true_iff; split; [apply andb_true_iff; split; [apply andb_true_iff; split|]|].
    + lia.
    + exact Hfv.
    + apply orb_true_r.
    + apply forallb_forall. intros g Hg. unfold flag_expressible.
      apply (from_flags_data_conv c _ w Hfl); [lia|].
      clear - Hg Hcv. revert Hg.
      destruct (has_cell blocks) eqn:Ehc; [destruct cellvars as [|cv0 cvr]|rewrite (Hcv eq_refl)];
        destruct fvs as [|fv0 fvr], fut, nested;
        cbn [In app]; intros Hg; split_or; flag_member.
Qed.

(* both directions: on well-formed data, to_code returns exactly when enc_ok holds *)
Corollary encode_total_iff : forall c (d : code_data_ pconst),
  data_wf c d = true -> ((exists code, encode_code c d = OK code) <-> enc_ok c d = true).
Proof.
  intros c d Hwf. split.
  - intros [code H]. eapply encode_total_conv; eauto.
  - intros H. apply encode_total. rewrite Hwf, H. reflexivity.
Qed.

(* ------------------------------------------------------------------ *)
(** * 5. Non-vacuity *)

(* module code: LOAD_CONST None; RETURN_VALUE *)
Definition ex_module : code_data_ pconst :=
  mkCD [[mkInstr 100 (AConst (KInner INone, PInner INone) None) None (Some 1) [];
         mkInstr 83 (ANoArg 0) None (Some 1) []]]
       [102; 46; 112; 121] 1 [60; 109; 62] 1 None [] false false None [].

(* def f(a, /, b, *c, d, **e): "doc"; x = b; return x   (a generator, nested, with the annotations future),
   one backward absolute jump and one forward relative jump added *)
Definition ex_function : code_data_ pconst :=
  mkCD [[mkInstr 124 (AVarname [98] None) None (Some 2) [];
         mkInstr 125 (AVarname [120] None) None (Some 2) [];
         mkInstr 110 (AJump 1 true) None (Some 2) []];
        [mkInstr 124 (AVarname [120] None) None (Some 3) [];
         mkInstr 83 (ANoArg 0) None (Some 3) [];
         mkInstr 113 (AJump 0 false) None (Some 400) []]]
       [102; 46; 112; 121] 1 [102] 2
       (Some (mkFunction {| a_posonly := [[97]]; a_poskw := [[98]]; a_varpos := Some [99];
                            a_kwonly := [[100]]; a_varkw := Some [101] |}
                         (Some [100; 111; 99]) (Some FT_GENERATOR)))
       [] true true None [].

Example ex_module_wf : data_wf Cfg39.cfg ex_module && enc_ok Cfg39.cfg ex_module = true.
Proof. vm_compute. reflexivity. Qed.
Example ex_module_encodes : is_ok (encode_code Cfg39.cfg ex_module) = true.
Proof. vm_compute. reflexivity. Qed.
Example ex_module_wf_310 : data_wf Cfg310.cfg ex_module && enc_ok Cfg310.cfg ex_module = true.
Proof. vm_compute. reflexivity. Qed.
Example ex_module_encodes_310 : is_ok (encode_code Cfg310.cfg ex_module) = true.
Proof. vm_compute. reflexivity. Qed.

Example ex_function_wf : data_wf Cfg39.cfg ex_function && enc_ok Cfg39.cfg ex_function = true.
Proof. vm_compute. reflexivity. Qed.
Example ex_function_encodes : is_ok (encode_code Cfg39.cfg ex_function) = true.
Proof. vm_compute. reflexivity. Qed.
Example ex_function_wf_310 : data_wf Cfg310.cfg ex_function && enc_ok Cfg310.cfg ex_function = true.
Proof. vm_compute. reflexivity. Qed.
Example ex_function_encodes_310 : is_ok (encode_code Cfg310.cfg ex_function) = true.
Proof. vm_compute. reflexivity. Qed.

(* each clause of enc_ok excludes a branch that is taken by some well-formed datum *)
Definition ex_neg_stack : code_data_ pconst :=
  mkCD (cd_blocks ex_module) [102; 46; 112; 121] 1 [60; 109; 62] (-1) None [] false false None [].
Example ex_neg_stack_fails :
  data_wf Cfg39.cfg ex_neg_stack = true /\ enc_ok Cfg39.cfg ex_neg_stack = false /\
  encode_code Cfg39.cfg ex_neg_stack = Err ValueError.
Proof. vm_compute. auto. Qed.

(* LOAD_DEREF x; RETURN_VALUE with x not among the free variables *)
Definition ex_undeclared : code_data_ pconst :=
  mkCD [[mkInstr 136 (AFreevar [120]) None (Some 1) []; mkInstr 83 (ANoArg 0) None (Some 1) []]]
       [102; 46; 112; 121] 1 [60; 109; 62] 1 None [] false false None [].
Example ex_undeclared_fails :
  data_wf Cfg39.cfg ex_undeclared = true /\ enc_ok Cfg39.cfg ex_undeclared = false /\
  encode_code Cfg39.cfg ex_undeclared = Err ValueError.
Proof. vm_compute. auto. Qed.

(* def f(a, /): return None   on 3.7 *)
Definition ex_posonly : code_data_ pconst :=
  mkCD (cd_blocks ex_module) [102; 46; 112; 121] 1 [102] 1
       (Some (mkFunction {| a_posonly := [[97]]; a_poskw := []; a_varpos := None;
                            a_kwonly := []; a_varkw := None |} None None))
       [] false false None [].
Example ex_posonly_fails_37 :
  data_wf Cfg37.cfg ex_posonly = true /\ enc_ok Cfg37.cfg ex_posonly = false /\
  encode_code Cfg37.cfg ex_posonly = Err NotImplementedError.
Proof. vm_compute. auto. Qed.
Example ex_posonly_ok_39 :
  data_wf Cfg39.cfg ex_posonly && enc_ok Cfg39.cfg ex_posonly = true /\
  is_ok (encode_code Cfg39.cfg ex_posonly) = true.
Proof. vm_compute. auto. Qed.

(* a configuration whose _CodeFlag lacks NOFREE *)
Definition cfg_no_nofree : cfg :=
  {| cfg_v310 := cfg_v310 Cfg39.cfg; cfg_v38 := cfg_v38 Cfg39.cfg;
     cfg_hasjabs := cfg_hasjabs Cfg39.cfg; cfg_hasjrel := cfg_hasjrel Cfg39.cfg;
     cfg_hasname := cfg_hasname Cfg39.cfg; cfg_haslocal := cfg_haslocal Cfg39.cfg;
     cfg_hasfree := cfg_hasfree Cfg39.cfg; cfg_hasconst := cfg_hasconst Cfg39.cfg;
     cfg_have_argument := cfg_have_argument Cfg39.cfg; cfg_extended_arg := cfg_extended_arg Cfg39.cfg;
     cfg_opcodes := cfg_opcodes Cfg39.cfg;
     cfg_flags := filter (fun fv : flag * Z => negb (flag_eqb (fst fv) NOFREE)) (cfg_flags Cfg39.cfg) |}.
Example ex_flag_fails :
  data_wf cfg_no_nofree ex_module = true /\ enc_ok cfg_no_nofree ex_module = false /\
  encode_code cfg_no_nofree ex_module = Err AttributeError.
Proof. vm_compute. auto. Qed.

(* ------------------------------------------------------------------ *)
(** * 6. The generated configurations name every flag: the fourth clause is always true there *)

Definition all_needed : list flag :=
  [NEWLOCALS; OPTIMIZED; GENERATOR; COROUTINE; ASYNC_GENERATOR; VARARGS; VARKEYWORDS; NOFREE;
   F_annotations; NESTED].

Lemma needed_flags_incl d : incl (needed_flags d) all_needed.
Proof.
  destruct d as [blocks fname fline name stack ty fvs fut nested al aa].
  unfold needed_flags.
  cbn [cd_blocks cd_filename cd_firstline cd_name cd_stacksize cd_type cd_freevars
       cd_future_annotations cd_nested cd_addline cd_addargs].
  intros g Hg. revert Hg.
  destruct ty as [f|]; [destruct (fn_type f) as [[| |]|], (str_truthy (a_varpos (fn_args f))),
                          (str_truthy (a_varkw (fn_args f)))|];
    destruct fvs as [|fv0 fvr], (has_cell blocks), fut, nested;
    cbv [FN_FLAGS fntype_flag all_needed]; cbn [In app]; intros Hg; split_or; auto 12.
Qed.

Definition enc_ok_generated (c : cfg) (d : code_data_ pconst) : bool :=
  (0 <=? cd_stacksize d) && freevars_declared d && (cfg_v38 c || no_posonly d).

Lemma enc_ok_flags_named c d :
  forallb (flag_expressible c) all_needed = true -> enc_ok c d = enc_ok_generated c d.
Proof.
  intros H. unfold enc_ok, enc_ok_generated.
  replace (forallb (flag_expressible c) (needed_flags d)) with true; [apply andb_true_r|].
  symmetry. apply forallb_forall. intros g Hg. rewrite forallb_forall in H.
  apply H. apply (needed_flags_incl d). exact Hg.
Qed.

Theorem enc_ok_generated_cfgs : forall d,
  enc_ok Cfg37.cfg d = enc_ok_generated Cfg37.cfg d /\ enc_ok Cfg38.cfg d = enc_ok_generated Cfg38.cfg d /\
  enc_ok Cfg39.cfg d = enc_ok_generated Cfg39.cfg d /\ enc_ok Cfg310.cfg d = enc_ok_generated Cfg310.cfg d.
Proof.
  intros d. repeat split; apply enc_ok_flags_named; vm_compute; reflexivity.
Qed.

Print Assumptions encode_total.
Print Assumptions enc_ok_generated_cfgs.
Print Assumptions encode_total_conv.
Print Assumptions encode_total_iff.
