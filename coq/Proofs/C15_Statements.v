(* Statements for C15 (the JSON form is portable): the JSON functions and normalize take no
   interpreter configuration at all, so "the same on every host" is their type; what remains is that a
   loaded document re-serializes to the identical document and that normalize commutes with the cycle. *)
From PCD Require Import Base.PyBase Base.Cfg Model.Flags Model.Args Model.Data Model.Consts Model.CodeData
  Model.Json Proofs.C07_Statements.

(* loading a document written by to_json_data and dumping it again gives the identical document
   (the listing of a frozenset is kept as loaded; NaNs are written as "nan" both times) *)
Definition S_reserialize : Prop := forall d,
  wfj_cd d = true ->
  exists d', code_data_from_json (code_data_to_json d) = OK d' /\
             code_data_to_json d' = code_data_to_json d.

(* normalizing the loaded data and normalizing the original give the same document *)
Definition S_normalize_portable : Prop := forall d,
  wfj_cd d = true ->
  exists d', code_data_from_json (code_data_to_json d) = OK d' /\
             code_data_to_json (normalize d') = code_data_to_json (normalize d).
