(* Statements of the C10 lemmas (proved in Proofs/LT_*.v, re-stated as theorems in Props/C10.v). *)
From PCD Require Import Base.PyBase Model.LineTable Spec.Lnotab.

(* Stage 1 *)
Definition S_bytes_items : Prop := forall b,
  forallb byte_ok b = true -> Nat.even (length b) = true ->
  exists items, bytes_to_items b = OK items /\ raw_ok false items = true /\ items_to_bytes items = OK b.
Definition S_items_bytes : Prop := forall items,
  raw_ok false items = true ->
  exists b, items_to_bytes items = OK b /\ forallb byte_ok b = true /\ bytes_to_items b = OK items.

(* Stage 2: expand is a left inverse of collapse on every raw table (both formats) *)
Definition S_expand_collapse : Prop := forall lt t,
  raw_ok lt t = true -> expand_items lt (collapse_items lt t) = t.

(* Stage 3, co_lnotab: mapping_to_items is a left inverse of items_to_mapping (which terminates) *)
Definition S_mapping_items_lnotab : Prop := forall c n,
  wfc_lnotab c = true ->
  exists m, items_to_mapping c n false = OK m /\ mapping_to_items m false = OK c.
Definition S_collapse_wfc_lnotab : Prop := forall t,
  raw_ok false t = true -> raw_even t = true -> wfc_lnotab (collapse_items false t) = true.

(* the decoded mapping is CPython's reading, co_lnotab *)
Definition S_reader_lnotab : Prop := forall t n m,
  raw_ok false t = true -> raw_even t = true ->
  items_to_mapping (collapse_items false t) n false = OK m ->
  forall o, 0 <= o < n -> Z.even o = true ->
  oget (lm_lines m) o = Some (Some (addr2line t o)).

(* the decoded mapping is CPython's reading, co_linetable *)
Definition S_reader_310 : Prop := forall t n m,
  raw_ok true t = true -> raw_even t = true ->
  items_to_mapping (collapse_items true t) n true = OK m ->
  forall o x, Z.even o = true -> colines t o = Some x ->
  oget (lm_lines m) o = Some x.

(* co_linetable, assembler images *)
Definition S_expand_deltas : Prop := forall p prev,
  ranges_ok p = true -> expand_items true (deltas p prev) = asm_310 p prev.
Definition S_mapping_of_asm310 : Prop := forall p n,
  ranges_ok p = true ->
  items_to_mapping (collapse_items true (asm_310 p 0)) n true
  = OK {| lm_lines := mapping_of_ranges p 0; lm_adds := [] |}.
Definition S_items_of_mapping_310 : Prop := forall p,
  ranges_ok p = true -> p <> [] ->
  mapping_to_items {| lm_lines := mapping_of_ranges p 0; lm_adds := [] |} true = OK (deltas p 0).

(* assembler output is inside the domains of the inverse laws.  (co_lnotab entries are NOT all even:
   a bytecode delta above 255 is split into (255, 0) entries; what is even is the collapsed table.) *)
Definition S_asm_pre310_raw_ok : Prop := forall v37 p,
  events_ok p = true -> raw_ok false (asm_pre310 v37 p 0) = true.
Definition S_asm_collapse_wfc : Prop := forall v37 p,
  events_ok p = true -> wfc_lnotab (collapse_items false (asm_pre310 v37 p 0)) = true.
Definition S_reader_lnotab_gen : Prop := forall t n m,
  raw_ok false t = true -> wfc_lnotab (collapse_items false t) = true ->
  items_to_mapping (collapse_items false t) n false = OK m ->
  forall o, 0 <= o < n -> Z.even o = true ->
  oget (lm_lines m) o = Some (Some (addr2line t o)).
Definition S_asm_310_raw : Prop := forall p prev,
  ranges_ok p = true ->
  raw_ok true (asm_310 p prev) = true /\ raw_even (asm_310 p prev) = true.

(* The property, co_lnotab: for every line program, every code length: decoding the assembled table
   gives CPython's line for every instruction offset, and re-encoding gives the table back *)
Definition S_C10_lnotab : Prop := forall v37 p n,
  events_ok p = true ->
  let t := asm_pre310 v37 p 0 in
  exists b m,
    items_to_bytes t = OK b /\
    to_line_mapping false b n = OK m /\
    from_line_mapping false m = OK b /\
    forall o, 0 <= o < n -> Z.even o = true -> oget (lm_lines m) o = Some (Some (addr2line t o)).

(* The property, co_linetable *)
Definition S_C10_310 : Prop := forall p n,
  ranges_ok p = true -> p <> [] ->
  let t := asm_310 p 0 in
  exists b m,
    items_to_bytes t = OK b /\
    to_line_mapping true b n = OK m /\
    from_line_mapping true m = OK b /\
    forall o x, Z.even o = true -> colines t o = Some x -> oget (lm_lines m) o = Some x.

(* sanity: the statements are not vacuous on concrete instances *)
Example ex_lnotab :
  let p := [(0, 1); (4, 127); (0, -1); (600, 300); (2, -300)] in
  events_ok p = true /\
  (match items_to_bytes (asm_pre310 false p 0) with
   | OK b => match to_line_mapping false b 700 with
             | OK m => match from_line_mapping false m with OK b' => list_eqb Z.eqb b b' | _ => false end
             | _ => false end
   | _ => false end) = true.
Proof. vm_compute. split; reflexivity. Qed.

Example ex_310 :
  let p := [(4, Some 1); (600, None); (2, Some 1); (300, Some 400); (2, Some 2)] in
  ranges_ok p = true /\
  (match items_to_bytes (asm_310 p 0) with
   | OK b => match to_line_mapping true b 908 with
             | OK m => match from_line_mapping true m with
                       | OK b' => list_eqb Z.eqb b b' &&
                                  list_eqb (fun x y => (fst x =? fst y) && option_eqb Z.eqb (snd x) (snd y))
                                           (lm_lines m) (mapping_of_ranges p 0)
                       | _ => false end
             | _ => false end
   | _ => false end) = true.
Proof. vm_compute. split; reflexivity. Qed.
