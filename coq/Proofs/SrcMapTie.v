(* Tie between Model/LineTable.mapping_to_items (stage 3 of the line codec, encoder side) and its statement-level
   translation from code_data/_line_mapping.py regenerated on every run (Gen/SrcLines.v, modules MappingToItemsLt and
   MappingToItemsLnotab): equal for ALL mappings - including the NameError of the co_linetable branch on an empty
   mapping and the TypeError of the co_lnotab branch on an instruction without line. *)
From PCD Require Import Base.PyBase Base.PyImp Model.LineTable.
From PCD Require Gen.SrcLines.

Module L := PCD.Gen.SrcLines.MappingToItemsLt.
Module N := PCD.Gen.SrcLines.MappingToItemsLnotab.

Lemma opt_eqo_eqb a b : opt_eqo a b = option_eqb Z.eqb a b.
Proof. destruct a, b; reflexivity. Qed.


Ltac lnorm :=
  unfold L.set_v_bytecode_offset, L.set_v_switching_sections, L.set_v_items, L.set_v_section_bytecode_offset,
         L.set_v_section_line_number, L.set_v_section_line_number_diff, L.set_v_last_section_line_number;
  cbn [L.v_last_section_line_number L.v_section_bytecode_offset L.v_section_line_number L.v_section_line_number_diff
       L.v_switching_sections L.v_bytecode_offset L.v_items bind is_none negb un_o ite_r].
Ltac nnorm :=
  unfold N.set_v_additional_line_offsets, N.set_v_first_line_offset, N.set_v_all_line_offsets, N.set_v_last_line_number,
         N.set_v_items, N.set_v_last_bytecode_offset;
  cbn [N.v_items N.v_last_bytecode_offset N.v_additional_line_offsets N.v_all_line_offsets N.v_first_line_offset
       N.v_last_line_number bind un_o negb].

(** * co_linetable: sections *)

(* once a section is open: the loop over the remaining entries followed by the final section *)
Lemma lt_gen : forall m r ls sb sl d sw lk it,
  bind (foldM (L.loop1_body m) r (L.mk_st ls (Some sb) sl d sw (Some lk) it))
       (fun s => bind (L.post m s) (fun s => OK (L.v_items s)))
  = OK (it ++ mapping_to_items_lt r sb sl ls d lk).
Proof.
  intros m. induction r as [|[bo line] r IH]; intros ls sb sl d sw lk it.
  - cbn. reflexivity.
  - cbn [foldM mapping_to_items_lt]. unfold L.loop1_body at 1.
    lnorm.
    rewrite opt_eqo_eqb. destruct (option_eqb Z.eqb line sl) eqn:E; cbn [negb bind].
    + apply IH.
    + destruct line as [l|]; lnorm;
        rewrite IH, <- app_assoc; reflexivity.
Qed.

Theorem mapping_to_items_lt_tie : forall m, L.run m = mapping_to_items m true.
Proof.
  intros m. unfold L.run, mapping_to_items, L.pre, L.loop. cbn [bind].
  destruct (lm_lines m) as [|[bo line] r].
  - cbn. reflexivity.
  - cbn [foldM]. unfold L.loop1_body at 1. unfold L.init.
    lnorm.
    destruct line as [l|]; lnorm; cbn [opt_eqo].
    + rewrite Z.eqb_refl. cbn [negb]. rewrite lt_gen. reflexivity.
    + cbn [negb]. rewrite lt_gen. reflexivity.
Qed.

(** * co_lnotab: entries *)

(* the inner loop: one entry per line offset, the first carries the bytecode distance *)
Fixpoint emit_from (bo lb : Z) (l : list Z) : list citem :=
  match l with [] => [] | lo :: rest => (Some lo, bo - lb) :: emit_from bo bo rest end.

Lemma inner_loop : forall m bo line l a al f lb ll it,
  foldM (N.loop1_body m bo line) l (N.mk_st a al f lb ll it)
  = OK (N.mk_st a al f (match l with [] => lb | _ => bo end) ll (it ++ emit_from bo lb l)).
Proof.
  intros m bo line. induction l as [|lo rest IH]; intros a al f lb ll it.
  - cbn. rewrite app_nil_r. reflexivity.
  - cbn [foldM]. unfold N.loop1_body at 1.
    nnorm.
    rewrite IH. cbn [emit_from]. rewrite <- app_assoc. destruct rest; reflexivity.
Qed.

Lemma emit_from_same bo l : emit_from bo bo l = map (fun x => (Some x, 0)) l.
Proof. induction l as [|x r IH]; cbn; [reflexivity|]. rewrite IH, Z.sub_diag. reflexivity. Qed.

Lemma lnotab_gen : forall m r a al f lb ll it,
  bind (foldM (N.loop2_body m) r (N.mk_st a al f lb ll it)) (fun s => OK (N.v_items s))
  = match mapping_to_items_lnotab r (lm_adds m) ll lb with OK l => OK (it ++ l) | Err e => Err e end.
Proof.
  intros m. induction r as [|[bo line] r IH]; intros a al f lb ll it.
  - cbn. rewrite app_nil_r. reflexivity.
  - cbn [foldM mapping_to_items_lnotab]. unfold N.loop2_body at 1.
    destruct line as [l|]; [|reflexivity].
    nnorm.
    set (additional := match oget (lm_adds m) bo with Some l0 => l0 | None => [] end).
    unfold truthy_z. destruct (l - ll - sumZ additional =? 0) eqn:E; nnorm.
    + rewrite inner_loop. nnorm.
      rewrite IH. destruct additional as [|lo rest]; cbn [emit_from].
      * destruct (mapping_to_items_lnotab r (lm_adds m) l lb); [|reflexivity]. rewrite app_nil_r. reflexivity.
      * rewrite emit_from_same. destruct (mapping_to_items_lnotab r (lm_adds m) l bo); [|reflexivity].
        rewrite <- app_assoc. reflexivity.
    + rewrite inner_loop. nnorm.
      rewrite IH. cbn [emit_from]. rewrite emit_from_same.
      destruct (mapping_to_items_lnotab r (lm_adds m) l bo); [|reflexivity].
      rewrite <- app_assoc. reflexivity.
Qed.

Theorem mapping_to_items_lnotab_tie : forall m, N.run m = mapping_to_items m false.
Proof.
  intros m. unfold N.run, mapping_to_items, N.pre, N.loop, N.post, N.init.
  nnorm.
  pose proof (lnotab_gen m (lm_lines m) [] [] 0 0 0 []) as H. cbn [app] in H.
  destruct (foldM (N.loop2_body m) (lm_lines m) _) as [s'|e] eqn:F; cbn [bind] in H |- *.
  - rewrite H. destruct (mapping_to_items_lnotab _ _ _ _); reflexivity.
  - rewrite H. destruct (mapping_to_items_lnotab _ _ _ _); reflexivity.
Qed.

Print Assumptions mapping_to_items_lt_tie.
Print Assumptions mapping_to_items_lnotab_tie.
