(* Statements for C02: the decoded data's symbolic view is CPython's reading (Spec/Dis.v). *)
From PCD Require Import Base.PyBase Base.Cfg Model.Flags Model.Args Model.Data Model.Consts
  Model.LineTable Model.Blocks Model.CodeData Spec.Lnotab Spec.Dis Model.ViewSer.

(* opcode classes of the interpreter: pairwise disjoint, all >= HAVE_ARGUMENT, EXTENDED_ARG in none *)
Fixpoint disjoint_lists (ls : list (list Z)) : bool :=
  match ls with
  | [] => true
  | l :: r => forallb (fun x => forallb (fun l' => negb (zmem x l')) r) l && disjoint_lists r
  end.
Definition cfg_ops_wf (c : cfg) : bool :=
  let classes := [cfg_hasjabs c; cfg_hasjrel c; cfg_hasname c; cfg_haslocal c; cfg_hasfree c; cfg_hasconst c] in
  disjoint_lists classes
  && forallb (forallb (fun x => (cfg_have_argument c <=? x) && negb (x =? cfg_extended_arg c))) classes
  && (cfg_have_argument c <=? cfg_extended_arg c).

(* shape of the code string: even length, bytes in range, at most three EXTENDED_ARG prefixes, none
   dangling, prefixes only in front of opcodes that take an argument, folded operand below 2^31 *)
Fixpoint units_ok (c : cfg) (b : list Z) (n : Z) (acc : Z) : bool :=
  match b with
  | [] => n =? 0
  | [_] => false
  | op :: byte :: r =>
      (0 <=? op) && (op <? 256) && (0 <=? byte) && (byte <? 256) &&
      if op =? cfg_extended_arg c then (n <? 3) && units_ok c r (n + 1) ((acc + byte) * 256)
      else ((n =? 0) || (cfg_have_argument c <=? op)) && (acc + byte <? 2147483648) && units_ok c r 0 0
  end.
Definition code_ok (c : cfg) (b : list Z) : bool := units_ok c b 0 0.

(* jump targets (as dis computes them) are first offsets of instructions *)
Definition targets_ok {K} (c : cfg) (b : list Z) (names varnames freevars cellvars : list str) (ks : list K) : bool :=
  let l := dis_fold c names varnames freevars cellvars ks (dis_unpack c b 0 0) None in
  forallb (fun x : Z * Z * dval K =>
             match snd x with
             | DJump t _ => zmem t (map (fun y : Z * Z * dval K => fst (fst y)) l)
             | _ => true
             end) l.

(* the raw line table is inside the domain of the C10 reader theorems and (3.10) covers the code *)
Definition table_ok (c : cfg) (table : list Z) (len_code : Z) : bool :=
  forallb byte_ok table && Nat.even (length table) &&
  let t := raw_entries table in
  if cfg_v310 c then raw_ok true t && raw_even t && (total_bc t =? len_code)
  else raw_ok false t && wfc_lnotab (collapse_items false t).

Definition view_wf (c : cfg) (code : pycode) (ks : list const) : bool :=
  cfg_ops_wf c && code_ok c (co_code code)
  && targets_ok c (co_code code) (co_names code) (co_varnames code) (co_freevars code) (co_cellvars code) ks
  && table_ok c (co_linetable code) (zlen (co_code code)).

(* K1: decode is CPython's reading *)
Definition S_C02_view : Prop := forall c code ks d,
  view_wf c code ks = true ->
  decode_code c code ks = OK d ->
  data_view (cd_blocks d)
  = dis_view c (co_code code) (co_names code) (co_varnames code) (co_freevars code) (co_cellvars code)
             ks (raw_entries (co_linetable code)) (co_firstlineno code).
