(* C06, code round trip - part 1: the header.  What decode_code reads in the flags word, the argument
   counts, co_varnames and the first constant of a code object that encode_code emitted. *)
From Coq Require Import ZArith List Bool Lia ZifyBool.
From PCD Require Import Base.PyBase Base.Cfg Model.Flags Model.Args Model.Data Model.Consts
  Model.LineTable Model.Blocks Model.CodeData Spec.Lnotab Spec.Dis Model.ViewSer
  Proofs.C02_Statements Proofs.C11_Statements Proofs.C01_Statements Proofs.C03_Statements
  Proofs.C03b_Statements Proofs.C03c_Statements Proofs.C06_Statements.
From PCD Require Proofs.FlagsProofs Proofs.ArgsProofs Proofs.RoundTrip2 Proofs.EncodeView
  Proofs.EncodeCorrect.
Import ListNotations. Open Scope Z_scope.

Module FP := FlagsProofs.
Module AP := ArgsProofs.
Module R2 := RoundTrip2.
Module EVw := EncodeView.
Module ECo := EncodeCorrect.

(* ------------------------------------------------------------------ *)
(** * 1. Membership in flag sets, as boolean equations *)

Lemma flag_eqb_refl f : flag_eqb f f = true.
Proof. unfold flag_eqb. lia. Qed.

Lemma flag_eqb_sym f g : flag_eqb f g = flag_eqb g f.
Proof. unfold flag_eqb. lia. Qed.

Lemma flag_mem_cons f g l : flag_mem f (g :: l) = flag_eqb f g || flag_mem f l.
Proof. reflexivity. Qed.

Lemma flag_mem_app f a b : flag_mem f (a ++ b) = flag_mem f a || flag_mem f b.
Proof. unfold flag_mem. apply existsb_app. Qed.

Lemma flag_mem_eqb f g l : flag_eqb f g = true -> flag_mem f l = flag_mem g l.
Proof.
  intros E. induction l as [|h l IH]; [reflexivity|]. rewrite !flag_mem_cons, IH. f_equal.
  unfold flag_eqb in *. lia.
Qed.

Lemma flag_mem_add f g l : flag_mem f (flag_add g l) = flag_eqb f g || flag_mem f l.
Proof.
  unfold flag_add. destruct (flag_mem g l) eqn:E.
  - destruct (flag_eqb f g) eqn:Efg; [|reflexivity]. cbn [orb]. now rewrite (flag_mem_eqb f g l Efg).
  - rewrite flag_mem_app, flag_mem_cons. cbn [flag_mem existsb]. rewrite orb_false_r. apply orb_comm.
Qed.

Lemma flag_mem_remove f g l : flag_mem f (flag_remove g l) = negb (flag_eqb g f) && flag_mem f l.
Proof.
  unfold flag_remove. induction l as [|h l IH]; [now rewrite andb_false_r|].
  cbn [filter]. destruct (flag_eqb g h) eqn:E; cbn [negb].
  - rewrite IH, flag_mem_cons. clear IH. unfold flag_eqb in *. destruct (flag_mem f l); lia.
  - rewrite !flag_mem_cons, IH. clear IH. unfold flag_eqb in *. destruct (flag_mem f l); lia.
Qed.

Lemma flag_mem_union f a b : flag_mem f (flags_union a b) = flag_mem f a || flag_mem f b.
Proof.
  unfold flags_union. revert a. induction b as [|g b IH]; intros a; cbn [fold_left].
  - cbn. now rewrite orb_false_r.
  - rewrite IH, flag_mem_add, flag_mem_cons.
    destruct (flag_eqb f g), (flag_mem f a), (flag_mem f b); reflexivity.
Qed.

Lemma flag_mem_self f l : In f l -> flag_mem f l = true.
Proof.
  intros H. unfold flag_mem. apply existsb_exists. exists f. split; [exact H|apply flag_eqb_refl].
Qed.

Lemma nil_of_mem (l : list flag) : (forall f, flag_mem f l = false) -> l = [].
Proof.
  destruct l as [|f l]; [reflexivity|]. intros H. specialize (H f).
  rewrite flag_mem_cons, flag_eqb_refl in H. discriminate.
Qed.

(* sets built with flag_add have distinct names *)
Definition fdistinct (l : list flag) : Prop := NoDup (map flag_id l).

Lemma NoDup_snoc {A} (l : list A) x : NoDup l -> ~ In x l -> NoDup (l ++ [x]).
Proof.
  induction l as [|y l IH]; intros H Hx; cbn [app]; [constructor; [intros []|constructor]|].
  inversion H as [|? ? Hy Hl]; subst. constructor.
  - rewrite in_app_iff. cbn [In]. intros [H1|[H1|[]]]; [now apply Hy|]. subst. apply Hx. now left.
  - apply IH; [exact Hl|]. intros H1. apply Hx. now right.
Qed.

Lemma fdistinct_add g l : fdistinct l -> fdistinct (flag_add g l).
Proof.
  unfold flag_add, fdistinct. intros H. destruct (flag_mem g l) eqn:E; [exact H|].
  rewrite map_app. cbn [map]. apply NoDup_snoc; [exact H|].
  apply R2.flag_mem_fids_false in E. exact E.
Qed.

Lemma fdistinct_union a b : fdistinct a -> fdistinct (flags_union a b).
Proof.
  unfold flags_union. revert a. induction b as [|g b IH]; intros a H; cbn [fold_left]; [exact H|].
  apply IH. now apply fdistinct_add.
Qed.

Lemma fdistinct_cond_add (b : bool) g l : fdistinct l -> fdistinct (if b then flag_add g l else l).
Proof. destruct b; [apply fdistinct_add|auto]. Qed.

(* ------------------------------------------------------------------ *)
(** * 2. names -> word -> names: same membership *)

Lemma flags_back c fs w :
  flags_wf (cfg_flags c) = true -> fdistinct fs ->
  from_flags_data c fs = OK w ->
  exists fs', to_flags_data c w = OK fs' /\ forall f, flag_mem f fs' = flag_mem f fs.
Proof.
  intros Hwf Hd Hw.
  destruct (FP.to_from_flags c fs w Hwf (proj2 (FP.distinct_Z_NoDup _) Hd) Hw) as (fs' & Ht & Hids).
  exists fs'. split; [exact Ht|]. intros f.
  assert (E : forall n, In n (R2.fids fs') <-> In n (R2.fids fs)).
  { intros n. unfold R2.fids. unfold flag_ids in Hids.
    rewrite <- (FP.sort_In (map flag_id fs')), <- (FP.sort_In (map flag_id fs)), Hids. reflexivity. }
  destruct (flag_mem f fs) eqn:E1.
  - apply R2.flag_mem_fids. apply E. now apply R2.flag_mem_fids.
  - apply R2.flag_mem_fids_false. intros H. apply E in H. now apply R2.flag_mem_fids_false in E1.
Qed.

(* ------------------------------------------------------------------ *)
(** * 3. The parameter names read back *)

(* Args tests var_positional / var_keyword with [is not None] *)
Lemma truthy_named (o : option str) : str_truthy o = AP.is_some o /\ truthy_list o = opt_list o.
Proof. destruct o; split; reflexivity. Qed.

Lemma args_back a (varnames : list str) fl :
  take (zlen (args_to_varnames a)) varnames = args_to_varnames a ->
  flag_mem VARARGS fl = str_truthy (a_varpos a) -> flag_mem VARKEYWORDS fl = str_truthy (a_varkw a) ->
  args_from_input (zlen (a_posonly a) + zlen (a_poskw a)) (zlen (a_posonly a)) (zlen (a_kwonly a)) varnames fl
  = OK (a, flag_remove VARKEYWORDS (flag_remove VARARGS fl)).
Proof.
  intros Htake Hfp Hfk.
  destruct (truthy_named (a_varpos a)) as [Tp Lp]. destruct (truthy_named (a_varkw a)) as [Tk Lk].
  assert (Hv : varnames = args_to_varnames a ++ drop (zlen (args_to_varnames a)) varnames).
  { rewrite <- Htake at 1. unfold take, drop. symmetry. apply firstn_skipn. }
  set (rest := drop (zlen (args_to_varnames a)) varnames) in Hv.
  unfold args_to_varnames in Hv. rewrite Lp, Lk in Hv. rewrite <- !app_assoc in Hv.
  set (v3 := opt_list (a_varpos a) ++ opt_list (a_varkw a) ++ rest) in Hv.
  assert (Hm : (if flag_mem VARARGS fl then 1 else 0) + (if flag_mem VARKEYWORDS fl then 1 else 0) <= zlen v3).
  { rewrite Hfp, Hfk, Tp, Tk. unfold v3. rewrite !AP.zlen_app, !AP.zlen_opt_list.
    pose proof (AP.zlen_nonneg rest). lia. }
  destruct (AP.args_master (a_posonly a) (a_poskw a) (a_kwonly a) v3 fl Hm)
    as (vp & vk & Hafi & Htk & Hvp & Hvk & _).
  rewrite Hv, Hafi. f_equal. f_equal.
  rewrite Hfp, Tp in Hvp. rewrite Hfk, Tk in Hvk. rewrite Hfp, Hfk, Tp, Tk in Htk.
  assert (vp = a_varpos a /\ vk = a_varkw a) as [-> ->].
  { unfold v3 in Htk. clear - Htk Hvp Hvk. destruct (a_varpos a) as [x|], (a_varkw a) as [y|], vp as [x'|], vk as [y'|];
      cbn in Hvp, Hvk; try discriminate; vm_compute in Htk; try (inversion Htk; subst; split; reflexivity). }
  destruct a; reflexivity.
Qed.

(* ------------------------------------------------------------------ *)
(** * 4. The first entry of the emitted constants table: the docstring, or not a string *)

Section FirstConst.
  Context {C : Type} (keq : C -> C -> bool) (is_str : C -> bool) (none_c : C) (str_c : str -> C).
  Hypothesis Hnone : is_str none_c = false.

  Definition doc_inv (bt : option function) (fs : fromargs C) : Prop :=
    match bt with
    | Some f =>
        match fn_doc f with
        | Some s => oget (fa_items fs) 0 = Some (str_c s)
        | None => (fa_items fs = [] /\ fa_index fs = [])
                  \/ exists k, oget (fa_items fs) 0 = Some k /\ is_str k = false
        end
    | None => True
    end.

  Lemma oget_some_len {V} (d : odict V) k v : oget d k = Some v -> 1 <= zlen d.
  Proof. destruct d; [discriminate|]. intros _. unfold zlen. cbn [length]. lia. Qed.

  (* an entry at index 0 survives additions without an index override *)
  Lemma fa_add_keeps0 (fs fs' : fromargs C) k i v :
    oget (fa_items fs) 0 = Some v ->
    fa_add keq fs k None = OK (i, fs') -> oget (fa_items fs') 0 = Some v.
  Proof.
    intros H0 H. unfold fa_add in H. destruct (key_lookup keq (fa_index fs) k).
    - inversion H; subst. exact H0.
    - unfold fa_setitem in H.
      destruct (match oget (fa_items fs) (zlen (fa_items fs)) with Some old => negb (keq old k) | None => false end);
        [discriminate|].
      inversion H; subst. cbn [fa_items]. rewrite TablesReplay.oget_oset.
      pose proof (oget_some_len _ _ _ H0). destruct (zlen (fa_items fs) =? 0) eqn:E; [lia|exact H0].
  Qed.

  Lemma from_arg_doc_inv bt fv a st v st' :
    match a with AConst _ (Some _) => False | _ => True end ->
    doc_inv bt (e_consts st) ->
    from_arg keq is_str none_c a bt fv st = OK (v, st') -> doc_inv bt (e_consts st').
  Proof.
    intros Hov Hinv H. destruct a as [z|t r|s ov|s ov|k ov|s|s ov|z]; cbn [from_arg] in H.
    - inversion H; subst; exact Hinv.
    - inversion H; subst; exact Hinv.
    - destruct (fa_add str_eqb (e_names st) s ov) as [[i t]|]; [|discriminate]. inversion H; subst. exact Hinv.
    - destruct (fa_add str_eqb (e_varnames st) s ov) as [[i t]|]; [|discriminate]. inversion H; subst. exact Hinv.
    - destruct ov as [?|]; [destruct Hov|]. cbn [opt_is_some negb] in H. rewrite andb_true_r in H.
      unfold doc_inv in *. unfold docstring_is_none in H.
      destruct bt as [f|].
      2:{ match type of H with match ?X with _ => _ end = _ => destruct X as [cs|]; [|discriminate] end.
          destruct (fa_add keq cs k None) as [[i t]|]; [|discriminate]. inversion H; subst. exact I. }
      destruct (fn_doc f) as [s|].
      + cbn [opt_is_some negb andb] in H.
        destruct (fa_add keq (e_consts st) k None) as [[i t]|] eqn:E; [|discriminate].
        inversion H; subst. cbn [e_consts]. eapply fa_add_keeps0; eauto.
      + cbn [opt_is_some negb andb] in H.
        destruct Hinv as [[Hi Hx]|[k0 [Hk0 Hs0]]].
        * rewrite Hi in H. cbn [andb] in H. destruct (is_str k) eqn:Es.
          -- unfold fa_setitem in H. rewrite Hi in H. cbn [oget negb] in H. cbn [oset] in H.
             match type of H with match fa_add keq ?F k None with _ => _ end = _ =>
               destruct (fa_add keq F k None) as [[i t]|] eqn:E; [|discriminate] end.
             inversion H; subst. cbn [e_consts]. right. exists none_c. split; [|exact Hnone].
             eapply fa_add_keeps0; [|exact E]. cbn [fa_items oget]. reflexivity.
          -- destruct (fa_add keq (e_consts st) k None) as [[i t]|] eqn:E; [|discriminate].
             inversion H; subst. cbn [e_consts]. right. exists k. split; [|exact Es].
             unfold fa_add in E. rewrite Hx in E. cbn [key_lookup] in E. rewrite Hi in E.
             unfold fa_setitem in E. rewrite Hi in E. cbn [oget zlen length] in E.
             inversion E; subst. cbn [fa_items oset oget]. reflexivity.
        * assert (Hne : match fa_items (e_consts st) with [] => true | _ :: _ => false end = false).
          { destruct (fa_items (e_consts st)); [discriminate|reflexivity]. }
          rewrite Hne in H. cbn [andb] in H.
          destruct (fa_add keq (e_consts st) k None) as [[i t]|] eqn:E; [|discriminate].
          inversion H; subst. cbn [e_consts]. right. exists k0. split; [|exact Hs0].
          eapply fa_add_keeps0; eauto.
    - destruct (index_of str_eqb s fv); [|discriminate]. inversion H; subst. exact Hinv.
    - destruct (fa_add str_eqb (e_cellvars st) s ov) as [[i t]|]; [|discriminate]. inversion H; subst. exact Hinv.
    - inversion H; subst; exact Hinv.
  Qed.

  Lemma first_args_doc_inv bt fv : forall l st vals st',
    Forall (fun i : instr_ C => match i_arg i with AConst _ (Some _) => False | _ => True end) l ->
    doc_inv bt (e_consts st) ->
    first_args keq is_str none_c l bt fv st = OK (vals, st') -> doc_inv bt (e_consts st').
  Proof.
    induction l as [|i r IH]; intros st vals st' Hl Hinv H; cbn [first_args] in H.
    - inversion H; subst. exact Hinv.
    - inversion Hl as [|? ? Hi Hr]; subst.
      destruct (from_arg keq is_str none_c (i_arg i) bt fv st) as [[v st1]|] eqn:Ea; [|discriminate].
      destruct (first_args keq is_str none_c r bt fv st1) as [[vs st2]|] eqn:Er; [|discriminate].
      inversion H; subst. eapply IH; [exact Hr| |exact Er]. eapply from_arg_doc_inv; eauto.
  Qed.

  Lemma enc_init_doc_inv bt st0 : enc_init keq str_c bt = OK st0 -> doc_inv bt (e_consts st0).
  Proof.
    unfold enc_init, doc_inv. destruct bt as [f|]; [|intros; exact I].
    match goal with |- match ?X with _ => _ end = _ -> _ => destruct X as [vn|]; [|discriminate] end.
    destruct (fn_doc f) as [s|].
    - unfold fa_setitem. cbn [fromargs_empty fa_items oget]. cbn [oset]. intros H; inversion H; subst.
      cbn [e_consts fa_items oget]. reflexivity.
    - intros H; inversion H; subst. cbn [e_consts fromargs_empty fa_items fa_index]. left. split; reflexivity.
  Qed.

  (* what the head of the collected table is *)
  Lemma tuple_head (fs : fromargs C) (consts : list C) :
    fa_to_tuple fs = OK consts ->
    match consts with
    | [] => fa_items fs = []
    | k :: _ => oget (fa_items fs) 0 = Some k
    end.
  Proof.
    unfold fa_to_tuple. destruct (collect (fa_items fs) (length (fa_items fs)) 0) as [l|] eqn:E; [|discriminate].
    intros H; inversion H; subst l. destruct (TablesSound.collect_nth _ _ _ _ E) as [Hl Hn].
    destruct consts as [|k r].
    - cbn [length] in Hl. destruct (fa_items fs); [reflexivity|discriminate].
    - cbn [length] in Hl. specialize (Hn 0%nat ltac:(lia)). cbn [nth_error] in Hn. symmetry. exact Hn.
  Qed.

  Lemma doc_inv_head bt (fs : fromargs C) consts :
    doc_inv bt fs -> fa_to_tuple fs = OK consts ->
    match bt with
    | Some f =>
        match fn_doc f with
        | Some s => exists r, consts = str_c s :: r
        | None => consts = [] \/ exists k r, consts = k :: r /\ is_str k = false
        end
    | None => True
    end.
  Proof.
    intros Hinv Ht. apply tuple_head in Ht. unfold doc_inv in Hinv.
    destruct bt as [f|]; [|exact I]. destruct (fn_doc f) as [s|].
    - destruct consts as [|k r]; [rewrite Ht in Hinv; discriminate|]. rewrite Ht in Hinv. inversion Hinv; subst. eauto.
    - destruct consts as [|k r]; [now left|]. right. exists k, r. split; [reflexivity|].
      destruct Hinv as [[Hi _]|[k0 [Hk0 Hs0]]]; [rewrite Hi in Ht; discriminate|].
      rewrite Ht in Hk0. inversion Hk0; subst. exact Hs0.
  Qed.
End FirstConst.

(* ------------------------------------------------------------------ *)
(** * 5. What encode_code returns, flags included *)

Definition enc_fl0 (bt : option function) : list flag :=
  match bt with
  | Some f => flags_union FN_FLAGS (match fn_type f with Some t => [fntype_flag t] | None => [] end)
  | None => []
  end.
Definition enc_fl1 (bt : option function) : list flag :=
  match bt with
  | Some f =>
      let fl1 := if str_truthy (a_varpos (fn_args f)) then flag_add VARARGS (enc_fl0 bt) else enc_fl0 bt in
      if str_truthy (a_varkw (fn_args f)) then flag_add VARKEYWORDS fl1 else fl1
  | None => []
  end.
Definition nofree_of (freevars cellvars : list str) : bool :=
  match freevars, cellvars with [], [] => true | _, _ => false end.
Definition enc_fl (d : code_data_ pconst) (cellvars : list str) : list flag :=
  let fl2 := if nofree_of (cd_freevars d) cellvars then flag_add NOFREE (enc_fl1 (cd_type d)) else enc_fl1 (cd_type d) in
  let fl3 := if cd_future_annotations d then flag_add F_annotations fl2 else fl2 in
  if cd_nested d then flag_add NESTED fl3 else fl3.
Definition enc_counts (bt : option function) : Z * Z * Z :=
  match bt with
  | Some f => (zlen (a_posonly (fn_args f)) + zlen (a_poskw (fn_args f)), zlen (a_posonly (fn_args f)),
               zlen (a_kwonly (fn_args f)))
  | None => (0, 0, 0)
  end.
Definition adj_flags (c : cfg) (nofree : bool) (flags : Z) : Z :=
  let nf := match flag_value (cfg_flags c) NOFREE with Some v => v | None => 64 end in
  if nofree then Z.lor flags nf else Z.land flags (Z.lnot nf).

Lemma encode_inv_f c d code :
  cd_addline d = None ->
  encode_code c d = OK code ->
  exists code0 lm0 names varnames cellvars constants flags table,
    ECo.b2b c d = OK (code0, lm0, names, varnames, cellvars, constants) /\
    from_flags_data c (enc_fl d cellvars) = OK flags /\
    match cd_type d with
    | Some f => take (zlen (args_to_varnames (fn_args f))) varnames = args_to_varnames (fn_args f)
    | None => True
    end /\
    (cfg_v38 c = false -> snd (fst (enc_counts (cd_type d))) = 0) /\
    code = mkCode (fst (fst (enc_counts (cd_type d)))) (snd (fst (enc_counts (cd_type d))))
                  (snd (enc_counts (cd_type d))) (zlen varnames) (cd_stacksize d)
                  (adj_flags c (nofree_of (cd_freevars d) cellvars) flags)
                  code0 (map snd constants) names varnames
                  (cd_filename d) (cd_name d) (cd_firstline d) table (cd_freevars d) cellvars.
Proof.
  intros Hal H. unfold encode_code in H. fold (ECo.b2b c d) in H.
  destruct (ECo.b2b c d) as [[[[[[code0 lm0] names] varnames] cellvars] constants]|e] eqn:HB; [|discriminate].
  cbv zeta in H. rewrite Hal in H.
  assert (Hargs : match cd_type d with
                  | Some f =>
                      let '(ac, pc, kc, vn, fl) := args_to_input (fn_args f) (enc_fl0 (cd_type d)) in
                      if list_eqb str_eqb (take (zlen vn) varnames) vn then OK (ac, pc, kc, fl) else Err AssertionError
                  | None => OK (0, 0, 0, enc_fl0 (cd_type d))
                  end
                  = match cd_type d with
                    | Some f => if list_eqb str_eqb (take (zlen (args_to_varnames (fn_args f))) varnames)
                                     (args_to_varnames (fn_args f))
                                then OK (enc_counts (cd_type d), enc_fl1 (cd_type d)) else Err AssertionError
                    | None => OK (enc_counts (cd_type d), enc_fl1 (cd_type d))
                    end).
  { destruct (cd_type d) as [f|]; [|reflexivity]. unfold args_to_input, enc_counts, enc_fl1. cbv zeta.
    reflexivity. }
  unfold enc_fl0 in Hargs. rewrite Hargs in H. clear Hargs.
  assert (Hv : match cd_type d with
               | Some f => take (zlen (args_to_varnames (fn_args f))) varnames = args_to_varnames (fn_args f)
               | None => True
               end /\
               exists X, X = OK (enc_counts (cd_type d), enc_fl1 (cd_type d)) /\
               match X with
               | OK (argcount, posonly, kwonly, fl1) =>
                   match from_flags_data c
                     (if cd_nested d then flag_add NESTED
                        (if cd_future_annotations d then flag_add F_annotations
                           match cd_freevars d with [] => match cellvars with [] => flag_add NOFREE fl1 | _ :: _ => fl1 end | _ :: _ => fl1 end
                         else match cd_freevars d with [] => match cellvars with [] => flag_add NOFREE fl1 | _ :: _ => fl1 end | _ :: _ => fl1 end)
                      else
                        (if cd_future_annotations d then flag_add F_annotations
                           match cd_freevars d with [] => match cellvars with [] => flag_add NOFREE fl1 | _ :: _ => fl1 end | _ :: _ => fl1 end
                         else match cd_freevars d with [] => match cellvars with [] => flag_add NOFREE fl1 | _ :: _ => fl1 end | _ :: _ => fl1 end))
                   with
                   | OK flags =>
                       match from_line_mapping (cfg_v310 c) (modify_line_offsets lm0 (- cd_firstline d)) with
                       | OK table =>
                           if negb (cfg_v38 c) && negb (posonly =? 0) then Err NotImplementedError
                           else pycode_new c argcount posonly kwonly (zlen varnames) (cd_stacksize d) flags code0
                                  (map snd constants) names varnames (cd_filename d) (cd_name d) (cd_firstline d)
                                  table (cd_freevars d) cellvars
                       | Err e => Err e
                       end
                   | Err e => Err e
                   end
               | Err e => Err e
               end = OK code).
  { destruct (cd_type d) as [f|].
    - destruct (list_eqb str_eqb _ _) eqn:El; [|discriminate].
      split; [apply (list_eqb_spec str_eqb str_eqb_spec) in El; exact El|]. eexists. split; [reflexivity|exact H].
    - split; [exact I|]. eexists. split; [reflexivity|exact H]. }
  clear H. destruct Hv as [Hv (X & -> & H)].
  destruct (enc_counts (cd_type d)) as [[ac pc] kc] eqn:Ec.
  match type of H with match from_flags_data c ?F with _ => _ end = _ =>
    assert (EF : F = enc_fl d cellvars) end.
  { unfold enc_fl, nofree_of. destruct (cd_nested d), (cd_future_annotations d), (cd_freevars d), cellvars; reflexivity. }
  rewrite EF in H. clear EF.
  destruct (from_flags_data c (enc_fl d cellvars)) as [flags|e] eqn:Hfl; [|discriminate].
  destruct (from_line_mapping _ _) as [table|e] eqn:Hlt; [|discriminate].
  destruct (negb (cfg_v38 c) && negb (pc =? 0)) eqn:E38; [discriminate|].
  unfold pycode_new in H. destruct (_ || _); [discriminate|]. cbv zeta in H.
  inversion H as [Hc]. clear H.
  exists code0, lm0, names, varnames, cellvars, constants, flags, table.
  split; [reflexivity|]. split; [exact Hfl|]. split; [exact Hv|]. split.
  - intros V. rewrite V in E38. cbn [fst snd]. cbn [negb andb] in E38. lia.
  - cbn [fst snd]. unfold adj_flags, nofree_of. reflexivity.
Qed.

(* ------------------------------------------------------------------ *)
(** * 6. Membership in the emitted flag set *)

Lemma flag_mem_cond_add g (b : bool) x l :
  flag_mem g (if b then flag_add x l else l) = (b && flag_eqb g x) || flag_mem g l.
Proof. destruct b; [apply flag_mem_add|reflexivity]. Qed.

Definition ty_mem (g : flag) (tp : option fntype) : bool :=
  match tp with Some t => flag_eqb g (fntype_flag t) | None => false end.

Lemma mem_enc_fl0 g f :
  flag_mem g (enc_fl0 (Some f)) = flag_eqb g NEWLOCALS || flag_eqb g OPTIMIZED || ty_mem g (fn_type f).
Proof.
  unfold enc_fl0. rewrite flag_mem_union. unfold FN_FLAGS. rewrite !flag_mem_cons.
  destruct (fn_type f) as [t|]; cbn [ty_mem]; [rewrite flag_mem_cons|]; cbn [flag_mem existsb];
    rewrite ?orb_false_r; reflexivity.
Qed.

Lemma mem_enc_fl1 g bt :
  flag_mem g (enc_fl1 bt) =
  match bt with
  | Some f => (str_truthy (a_varkw (fn_args f)) && flag_eqb g VARKEYWORDS)
              || ((str_truthy (a_varpos (fn_args f)) && flag_eqb g VARARGS)
                  || (flag_eqb g NEWLOCALS || flag_eqb g OPTIMIZED || ty_mem g (fn_type f)))
  | None => false
  end.
Proof.
  destruct bt as [f|]; [|reflexivity]. unfold enc_fl1. cbv zeta.
  rewrite !flag_mem_cond_add, mem_enc_fl0. reflexivity.
Qed.

Lemma mem_enc_fl g d cellvars :
  flag_mem g (enc_fl d cellvars) =
  (cd_nested d && flag_eqb g NESTED)
  || ((cd_future_annotations d && flag_eqb g F_annotations)
      || ((nofree_of (cd_freevars d) cellvars && flag_eqb g NOFREE) || flag_mem g (enc_fl1 (cd_type d)))).
Proof. unfold enc_fl. cbv zeta. rewrite !flag_mem_cond_add. reflexivity. Qed.

Lemma fdistinct_enc_fl d cellvars : fdistinct (enc_fl d cellvars).
Proof.
  unfold enc_fl. cbv zeta. repeat apply fdistinct_cond_add.
  unfold enc_fl1. destruct (cd_type d) as [f|]; [|constructor]. cbv zeta.
  repeat apply fdistinct_cond_add. unfold enc_fl0. apply fdistinct_union.
  unfold fdistinct, FN_FLAGS. cbn. repeat constructor; cbn; intuition discriminate.
Qed.

(* the flags the decoder is left with after taking out the ones it interprets *)
Definition dec_rest (fs : list flag) : list flag :=
  flag_remove NESTED (flag_remove F_annotations (flag_remove NOFREE
    (flag_remove VARKEYWORDS (flag_remove VARARGS fs)))).

Lemma ty_mem_cases g tp :
  ty_mem g tp = match tp with
                | Some FT_GENERATOR => flag_id g =? 5
                | Some FT_COROUTINE => flag_id g =? 7
                | Some FT_ASYNC_GENERATOR => flag_id g =? 9
                | None => false
                end.
Proof. destruct tp as [[]|]; reflexivity. Qed.

Lemma mem_dec_rest g d cellvars fs :
  (forall f, flag_mem f fs = flag_mem f (enc_fl d cellvars)) ->
  flag_mem g (dec_rest fs) =
  match cd_type d with
  | Some f => flag_eqb g NEWLOCALS || flag_eqb g OPTIMIZED || ty_mem g (fn_type f)
  | None => false
  end.
Proof.
  intros H. unfold dec_rest. rewrite !flag_mem_remove, H, mem_enc_fl, mem_enc_fl1.
  destruct (cd_type d) as [f|].
  - rewrite ty_mem_cases. unfold flag_eqb. cbn [flag_id].
    destruct (cd_nested d), (cd_future_annotations d), (nofree_of (cd_freevars d) cellvars),
      (str_truthy (a_varkw (fn_args f))), (str_truthy (a_varpos (fn_args f))), (fn_type f) as [[]|]; lia.
  - unfold flag_eqb. cbn [flag_id].
    destruct (cd_nested d), (cd_future_annotations d), (nofree_of (cd_freevars d) cellvars); lia.
Qed.

(* ------------------------------------------------------------------ *)
(** * 7. The header read back *)

Definition no_const_ov {C} (i : instr_ C) : Prop :=
  match i_arg i with AConst _ (Some _) => False | _ => True end.

Definition args_of (bt : option function) : args :=
  match bt with Some f => fn_args f | None => empty_args end.

Lemma mem_special d cellvars :
  flag_mem NOFREE (enc_fl d cellvars) = nofree_of (cd_freevars d) cellvars /\
  flag_mem F_annotations (enc_fl d cellvars) = cd_future_annotations d /\
  flag_mem VARARGS (enc_fl d cellvars) = str_truthy (a_varpos (args_of (cd_type d))) /\
  flag_mem VARKEYWORDS (enc_fl d cellvars) = str_truthy (a_varkw (args_of (cd_type d))).
Proof.
  rewrite !mem_enc_fl, !mem_enc_fl1.
  destruct (cd_type d) as [f|]; cbn [args_of empty_args a_varpos a_varkw str_truthy];
    rewrite ?ty_mem_cases; unfold flag_eqb; cbn [flag_id];
    destruct (cd_nested d), (cd_future_annotations d), (nofree_of (cd_freevars d) cellvars);
    try destruct (str_truthy (a_varkw (fn_args f))), (str_truthy (a_varpos (fn_args f))), (fn_type f) as [[]|];
    repeat split; reflexivity.
Qed.

Definition doc_of_consts (ks : list const) : option str :=
  match ks with KInner (IStr s) :: _ => Some s | _ => None end.

Theorem header_back c d code nf :
  flags_wf (cfg_flags c) = true ->
  flag_value (cfg_flags c) NOFREE = Some nf ->
  cd_addline d = None -> cd_addargs d = [] ->
  Forall no_const_ov (concat (cd_blocks d)) ->
  encode_code c d = OK code ->
  exists code0 lm0 names varnames cellvars constants,
    ECo.b2b c d = OK (code0, lm0, names, varnames, cellvars, constants) /\
    co_consts code = map snd constants /\
    forall d2, decode_code c code (map fst constants) = OK d2 ->
      cd_type d2 = cd_type d /\ cd_future_annotations d2 = cd_future_annotations d /\
      cd_freevars d2 = cd_freevars d /\ cd_stacksize d2 = cd_stacksize d /\
      cd_firstline d2 = cd_firstline d /\ cd_name d2 = cd_name d /\ cd_filename d2 = cd_filename d.
Proof.
  intros Hwf Hnf Hal Haa Hov Henc.
  destruct (encode_inv_f c d code Hal Henc)
    as (code0 & lm0 & names & varnames & cellvars & constants & flags & table & HB & Hfl & Htake & H38 & ->).
  exists code0, lm0, names, varnames, cellvars, constants. split; [exact HB|]. split; [reflexivity|].
  (* the head of the constants table *)
  assert (Hhead : match cd_type d with
                  | Some f => doc_of_consts (map fst constants) = fn_doc f
                  | None => True
                  end).
  { unfold ECo.b2b in HB. rewrite Haa in HB.
    destruct (EVw.b2b_inv c pkey_eqb _ _ _ _ _ _ _ _ _ _ _ _ HB)
      as (st0 & vals0 & st & vals & Hinit & Hfirst & _ & _ & _ & _ & _ & T4).
    pose proof (enc_init_doc_inv pkey_eqb (fun k : pconst => is_str_const (fst k)) _ _ _ Hinit) as I0.
    pose proof (first_args_doc_inv pkey_eqb (fun k : pconst => is_str_const (fst k))
                  (KInner INone, PInner INone) (fun s => (KInner (IStr s), PInner (IStr s))) eq_refl
                  _ _ _ _ _ _ Hov I0 Hfirst) as I1.
    pose proof (doc_inv_head pkey_eqb (fun k : pconst => is_str_const (fst k)) (KInner INone, PInner INone) _ _ _ _ I1 T4) as Hh.
    destruct (cd_type d) as [f|]; [|exact I]. destruct (fn_doc f) as [s|].
    - destruct Hh as [r ->]. reflexivity.
    - destruct Hh as [->|(k & r & -> & Hs)]; [reflexivity|]. cbn [map doc_of_consts].
      destruct k as [k p]. cbn [fst] in *. destruct k as [[]|]; try reflexivity. discriminate. }
  intros d2 Hdec.
  destruct (R2.decode_code_inv _ _ _ _ Hdec)
    as (lm0' & fl0 & a & fl1 & bt & lm' & nl & lm'' & _ & Fl & Af & _ & Bt & _ & _ & Ed).
  cbn [co_flags co_argcount co_posonlyargcount co_kwonlyargcount co_varnames co_freevars co_cellvars
       co_filename co_firstlineno co_name co_stacksize] in *.
  destruct (mem_special d cellvars) as (Mnf & Man & Mva & Mvk).
  (* the flags word *)
  assert (Eadj : adj_flags c (nofree_of (cd_freevars d) cellvars) flags = flags).
  { unfold adj_flags. rewrite Hnf. destruct (nofree_of (cd_freevars d) cellvars) eqn:En.
    - apply (R2.nofree_bit_set c _ _ _ Hwf Hfl Hnf). now rewrite Mnf.
    - apply (R2.nofree_bit_clear c _ _ _ Hwf Hfl Hnf). now rewrite Mnf. }
  rewrite Eadj in Fl.
  destruct (flags_back c _ _ Hwf (fdistinct_enc_fl d cellvars) Hfl) as (fs' & Ht & Hmem).
  rewrite Ht in Fl. inversion Fl; subst fl0. clear Fl.
  (* the arguments *)
  assert (Ecnt : enc_counts (cd_type d)
                 = (zlen (a_posonly (args_of (cd_type d))) + zlen (a_poskw (args_of (cd_type d))),
                    zlen (a_posonly (args_of (cd_type d))), zlen (a_kwonly (args_of (cd_type d))))).
  { destruct (cd_type d); reflexivity. }
  assert (Epos : (if cfg_v38 c then snd (fst (enc_counts (cd_type d))) else 0) = snd (fst (enc_counts (cd_type d)))).
  { destruct (cfg_v38 c) eqn:V; [reflexivity|]. symmetry. now apply H38. }
  rewrite Epos, Ecnt in Af. cbn [fst snd] in Af.
  assert (Htk : take (zlen (args_to_varnames (args_of (cd_type d)))) varnames = args_to_varnames (args_of (cd_type d))).
  { destruct (cd_type d); [exact Htake|reflexivity]. }
  rewrite (args_back _ varnames fs' Htk) in Af by (rewrite Hmem; assumption).
  inversion Af; subst a fl1. clear Af.
  fold (dec_rest fs') in Bt.
  pose proof (fun g => mem_dec_rest g d cellvars fs' Hmem) as HL.
  assert (Ebt : bt = cd_type d).
  { unfold R2.decode_bt, FN_FLAGS, FN_TYPE_FLAGS in Bt. cbn [filter fst] in Bt. rewrite !HL in Bt.
    destruct (cd_type d) as [f|].
    - cbn [args_of] in Bt. fold (doc_of_consts (map fst constants)) in Bt. rewrite Hhead in Bt.
      rewrite !ty_mem_cases in Bt.
      destruct f as [fa fd ft]. cbn [fn_type fn_args fn_doc] in *.
      destruct ft as [[]|]; cbn in Bt; inversion Bt; reflexivity.
    - destruct (args_len (args_of None) =? 0); cbn [negb] in Bt; [|discriminate]. inversion Bt; reflexivity. }
  rewrite Ed. cbn [cd_type cd_future_annotations cd_freevars cd_stacksize cd_firstline cd_name cd_filename].
  split; [exact Ebt|]. split; [|repeat split; reflexivity].
  rewrite !flag_mem_remove, Hmem, Man. reflexivity.
Qed.

Print Assumptions header_back.
