(* Tie between the jump relaxation of Model/Blocks.v (block_offsets, update_jumps) and the per-instruction bodies of the
   two passes of the `while changed_instruction_lengths` loop of code_data/_blocks.py:blocks_to_bytes, re-translated on
   every run (Gen/SrcLines.v, modules RelaxPass1 / RelaxPass2).
   (1) the translated body of pass 2 is model_step2 for ALL inputs: the instruction's size, the running offset, the new
       jump operand (relative: from the offset AFTER the instruction; scaled by the interpreter's unit) and the
       "changed" flag, which is only ever raised - never lowered - inside a pass;
   (2) update_jumps IS the left-to-right iteration of model_step2 (update_jumps_is_the_iteration), so the model's pass is
       the iteration of what the source's loop body says now;
   (3) the translated body of pass 1 adds exactly n_units to the running offset. *)
From PCD Require Import Base.PyBase Base.PyImp Base.Cfg Model.Flags Model.Args Model.Data Model.LineTable Model.Blocks
  Proofs.InstrCodec.
From PCD Require Gen.Src Gen.SrcLines.

Module P1 := PCD.Gen.SrcLines.RelaxPass1.
Module P2 := PCD.Gen.SrcLines.RelaxPass2.

Section Relax.
  Context {C : Type}.
  Variable c : cfg.
  Variable offs : list Z.

  Definition is_jump (a : arg_ C) : bool := match a with AJump _ _ => true | _ => false end.
  Definition jump_rel (a : arg_ C) : bool := match a with AJump _ r => r | _ => false end.
  Definition jump_target_offset (a : arg_ C) : option Z :=
    match a with AJump t _ => py_index_dict offs t | _ => None end.

  (* one instruction of the second pass: running offset, new operand, flag *)
  Definition model_step2 (i : instr_ C) (v cur : Z) (changed : bool) : res (Z * Z * bool) :=
    let n := n_units (i_nargs i) v in
    let cur' := cur + n in
    match i_arg i with
    | AJump target rel =>
        match py_index_dict offs target with
        | None => Err KeyError
        | Some toff =>
            let mult := if cfg_v310 c then 1 else 2 in
            let nv := if rel then (toff - cur') * mult else mult * toff in
            let ch := negb (match i_nargs i with Some k => negb (k =? 0) | None => false end)
                      && negb (n =? instrsize nv) in
            OK (cur', nv, changed || ch)
        end
    | _ => OK (cur', v, changed)
    end.

  Fixpoint run2 (l : list (instr_ C)) (vals : list Z) (cur : Z) (changed : bool) : res (list Z * bool) :=
    match l, vals with
    | [], _ => OK ([], changed)
    | i :: r, v :: vs =>
        match model_step2 i v cur changed with
        | Err e => Err e
        | OK (cur', nv, ch') =>
            match run2 r vs cur' ch' with
            | OK (rest, chf) => OK (nv :: rest, chf)
            | Err e => Err e
            end
        end
    | _ :: _, [] => Err KeyError
    end.

  Lemma run2_update_jumps : forall l vals cur changed,
    run2 l vals cur changed =
    match update_jumps c l vals offs cur with
    | OK (vs, ch) => OK (vs, changed || ch)
    | Err e => Err e
    end.
  Proof.
    induction l as [|i r IH]; intros vals cur changed.
    - cbn. rewrite orb_false_r. reflexivity.
    - destruct vals as [|v vs]; [reflexivity|].
      cbn [run2 update_jumps]. unfold model_step2.
      destruct (i_arg i) as [z|target rel|s ov|s ov|k ov|s|s ov|z]; cbv zeta;
        try (rewrite IH; destruct (update_jumps c r vs offs _) as [[rest ch']|]; reflexivity).
      destruct (py_index_dict offs target) as [toff|]; [|reflexivity].
      rewrite IH. destruct (update_jumps c r vs offs _) as [[rest ch']|]; [|reflexivity].
      rewrite orb_assoc. reflexivity.
  Qed.

  Theorem update_jumps_is_the_iteration : forall l vals cur,
    update_jumps c l vals offs cur = run2 l vals cur false.
  Proof.
    intros. rewrite run2_update_jumps. destruct (update_jumps c l vals offs cur) as [[vs ch]|]; reflexivity.
  Qed.

  (* the translated body of pass 2 *)
  Theorem pass2_step_tie : forall (i : instr_ C) v s,
    match model_step2 i v (P2.v_current_instruction_offset s) (P2.v_changed_instruction_lengths s) with
    | OK (cur', nv, ch') =>
        exists s', P2.step (i_nargs i) v (cfg_v310 c) (is_jump (i_arg i)) (jump_target_offset (i_arg i)) (jump_rel (i_arg i)) s = OK s'
                   /\ P2.v_current_instruction_offset s' = cur'
                   /\ P2.v_changed_instruction_lengths s' = ch'
                   /\ P2.v_out_arg s' = (if is_jump (i_arg i) then Some nv else P2.v_out_arg s)
    | Err e => P2.step (i_nargs i) v (cfg_v310 c) (is_jump (i_arg i)) (jump_target_offset (i_arg i)) (jump_rel (i_arg i)) s = Err e
    end.
  Proof.
    intros i v [av ch cur mu ni nav oa ti]. unfold model_step2, P2.step.
    cbn [P2.v_current_instruction_offset P2.v_changed_instruction_lengths P2.v_out_arg].
    unfold P2.set_v_arg_value, P2.set_v_n_instructions, P2.set_v_current_instruction_offset, P2.set_v_target_instruction_offset,
      P2.set_v_multiplier, P2.set_v_new_arg_value, P2.set_v_changed_instruction_lengths, P2.set_v_out_arg.
    cbn [bind P2.v_arg_value P2.v_changed_instruction_lengths P2.v_current_instruction_offset P2.v_multiplier P2.v_n_instructions
         P2.v_new_arg_value P2.v_out_arg P2.v_target_instruction_offset].
    rewrite !src_instrsize_tie.
    change (match i_nargs i with Some n__ => if n__ =? 0 then instrsize v else n__ | None => instrsize v end) with (n_units (i_nargs i) v).
    destruct (i_arg i) as [z|target rel|s0 ov|s0 ov|k ov|s0|s0 ov|z]; cbn [is_jump jump_rel jump_target_offset];
      try (eexists; repeat split; reflexivity).
    destruct (py_index_dict offs target) as [toff|]; [|reflexivity].
    cbn [bind P2.v_arg_value P2.v_changed_instruction_lengths P2.v_current_instruction_offset P2.v_multiplier P2.v_n_instructions
         P2.v_new_arg_value P2.v_out_arg P2.v_target_instruction_offset].
    set (n := n_units (i_nargs i) v).
    destruct rel; cbn [bind P2.v_arg_value P2.v_changed_instruction_lengths P2.v_current_instruction_offset P2.v_multiplier
         P2.v_n_instructions P2.v_new_arg_value P2.v_out_arg P2.v_target_instruction_offset];
      rewrite !src_instrsize_tie;
      match goal with |- context [if ?b then OK _ else OK _] => destruct b eqn:Eb end;
      eexists; (split; [reflexivity|]); cbn [P2.v_current_instruction_offset P2.v_changed_instruction_lengths P2.v_out_arg];
      (split; [reflexivity|]); (split; [|reflexivity]);
      unfold truthy_o in Eb; destruct (i_nargs i) as [k|]; cbn in Eb |- *; rewrite ?Eb; try reflexivity;
      try (destruct (k =? 0); cbn in Eb |- *; rewrite ?Eb; destruct ch; reflexivity);
      try (destruct ch; cbn; try reflexivity; rewrite Eb; reflexivity);
      try (repeat match goal with b : bool |- _ => destruct b end; reflexivity).
  Qed.

  (* the translated body of pass 1 *)
  Theorem pass1_step_tie : forall (i : instr_ C) v s jt tr,
    exists s', P1.step (i_nargs i) v (cfg_v310 c) (is_jump (i_arg i)) jt tr s = OK s' /\
      P1.v_current_instruction_offset s' = P1.v_current_instruction_offset s + n_units (i_nargs i) v.
  Proof.
    intros i v [av cur ni] jt tr. unfold P1.step, P1.set_v_arg_value, P1.set_v_n_instructions, P1.set_v_current_instruction_offset.
    cbn [bind P1.v_arg_value P1.v_current_instruction_offset P1.v_n_instructions].
    rewrite !src_instrsize_tie. eexists. split; [reflexivity|]. cbn [P1.v_current_instruction_offset]. reflexivity.
  Qed.
End Relax.

Print Assumptions pass2_step_tie.
Print Assumptions update_jumps_is_the_iteration.
