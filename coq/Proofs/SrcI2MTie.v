(* Tie between Model/LineTable.items_to_mapping (stage 3 of the line codec, decoder side) and its statement-level
   translation regenerated on every run (Gen/SrcLines.v, modules ItemsToMappingLt / ItemsToMappingLnotab). *)
From PCD Require Import Base.PyBase Base.PyImp Model.LineTable.
From PCD Require Gen.SrcLines.
From Coq Require Import ZifyBool.

Module A := PCD.Gen.SrcLines.ItemsToMappingLt.
Module B := PCD.Gen.SrcLines.ItemsToMappingLnotab.

(** * co_linetable: ranges *)

Lemma lt_inner : forall fuel items mx item l bo ci cl lb ad ln,
  foldM (A.loop1_body fuel items mx item) l (A.mk_st bo ci cl lb ad ln)
  = OK (A.mk_st bo ci cl lb ad
          (fold_left (fun acc i => oset acc i (if is_none (fst item) then None else Some cl)) l ln)).
Proof.
  intros fuel items mx item. induction l as [|i r IH]; intros bo ci cl lb ad ln; [reflexivity|].
  cbn [foldM fold_left]. unfold A.loop1_body at 1. unfold A.set_v_offset_to_line.
  cbn [A.v_bytecode_offset A.v_current_item_offset A.v_current_line A.v_last_bytecode_offset
       A.v_offset_to_additional_line_offsets A.v_offset_to_line].
  apply IH.
Qed.

Lemma lt_outer : forall fuel full mx items bo ci cl lb ad ln,
  exists s', foldM (A.loop2_body fuel full mx) items (A.mk_st bo ci cl lb ad ln) = OK s' /\
    A.v_offset_to_line s' = items_to_mapping_lt items cl bo ln.
Proof.
  intros fuel full mx. induction items as [|[il ib] r IH]; intros bo ci cl lb ad ln.
  - eexists. split; reflexivity.
  - cbn [foldM items_to_mapping_lt]. unfold A.loop2_body at 1. cbn [fst snd].
    destruct il as [d|]; cbn [is_none negb un_o bind];
      unfold A.set_v_current_line, A.set_v_bytecode_offset;
      cbn [bind A.v_bytecode_offset A.v_current_item_offset A.v_current_line A.v_last_bytecode_offset
           A.v_offset_to_additional_line_offsets A.v_offset_to_line];
      rewrite lt_inner; cbn [bind fst is_none A.v_bytecode_offset A.v_current_item_offset A.v_current_line
           A.v_last_bytecode_offset A.v_offset_to_additional_line_offsets A.v_offset_to_line];
      apply IH.
Qed.

Theorem items_to_mapping_lt_tie : forall fuel items mx,
  A.run fuel items mx =
  match items_to_mapping items mx true with OK m => OK (lm_lines m, lm_adds m) | Err e => Err e end.
Proof.
  intros fuel items mx. unfold A.run, A.body, items_to_mapping, A.init.
  destruct (lt_outer fuel items mx items 0 0 0 0 [] []) as (s' & H & E).
  rewrite H. cbn [bind lm_lines lm_adds]. rewrite E. reflexivity.
Qed.

(** * co_lnotab: walk over the bytecode offsets *)

Ltac bnorm :=
  unfold B.set_v_bytecode_offset, B.set_v_current_item_offset, B.set_v_current_line, B.set_v_last_bytecode_offset,
         B.set_v_line_offset, B.set_v_offset_to_additional_line_offsets, B.set_v_offset_to_line;
  cbn [B.v_bytecode_offset B.v_current_item_offset B.v_current_line B.v_last_bytecode_offset B.v_line_offset
       B.v_offset_to_additional_line_offsets B.v_offset_to_line bind un_o fst snd and_r].

Lemma zlen_app' {A} (a b : list A) : zlen (a ++ b) = zlen a + zlen b.
Proof. unfold zlen. rewrite app_length. lia. Qed.
Lemma zlen_nonneg' {A} (a : list A) : 0 <= zlen a. Proof. unfold zlen. lia. Qed.
Lemma zlen_cons' {A} (x : A) l : zlen (x :: l) = 1 + zlen l.
Proof. unfold zlen. cbn [length]. lia. Qed.

Lemma name_at_app' {A} (pre : list A) x r : name_at (pre ++ x :: r) (zlen pre) = OK x.
Proof.
  unfold name_at. pose proof (zlen_nonneg' pre). replace (zlen pre <? 0) with false by lia.
  unfold znth, zlen. replace (Z.of_nat (length pre) <? 0) with false by lia.
  rewrite Nat2Z.id, nth_error_app2 by lia. rewrite Nat.sub_diag. reflexivity.
Qed.

Section Inner.
  Variables (F : nat) (mx : Z) (cur_item : option Z * Z).

  Lemma w1_stop_end : forall f pre bo cl lb lo ad ln,
    while_ f (B.while1_cond F pre mx cur_item) (B.while1_body F pre mx cur_item) (B.mk_st bo (zlen pre) cl lb lo ad ln)
    = OK (B.mk_st bo (zlen pre) cl lb lo ad ln).
  Proof.
    intros. destruct f; cbn [while_]; unfold B.while1_cond; bnorm; rewrite Z.ltb_irrefl; reflexivity.
  Qed.

  Lemma w1_cond : forall pre il ib r bo cl lb lo ad ln,
    B.while1_cond F (pre ++ (il, ib) :: r) mx cur_item (B.mk_st bo (zlen pre) cl lb lo ad ln) = OK (ib =? 0).
  Proof.
    intros. unfold B.while1_cond. bnorm.
    replace (zlen pre <? zlen (pre ++ (il, ib) :: r)) with true
      by (rewrite zlen_app', zlen_cons'; pose proof (zlen_nonneg' r); lia).
    rewrite name_at_app'. reflexivity.
  Qed.

  Lemma w1_body : forall pre il ib r bo cl lb lo ad ln,
    B.while1_body F (pre ++ (il, ib) :: r) mx cur_item (B.mk_st bo (zlen pre) cl lb lo ad ln)
    = match il with
      | Some l => OK (B.mk_st bo (zlen pre + 1) (cl + l) lb (Some l) (adds_append ad bo l) ln)
      | None => Err TypeError
      end.
  Proof.
    intros. unfold B.while1_body. bnorm. rewrite name_at_app'. bnorm. destruct il; reflexivity.
  Qed.

  (* the inner loop absorbs the zero-width entries that follow *)
  Lemma inner_while : forall rem f pre bo cl lb lo ad ln,
    (length rem <= f)%nat ->
    match consume_zero_width rem bo cl ad with
    | OK (rem', cl', ad') =>
        exists lo' p, rem = p ++ rem' /\
          while_ f (B.while1_cond F (pre ++ rem) mx cur_item) (B.while1_body F (pre ++ rem) mx cur_item)
                 (B.mk_st bo (zlen pre) cl lb lo ad ln)
          = OK (B.mk_st bo (zlen (pre ++ p)) cl' lb lo' ad' ln)
    | Err e =>
        while_ f (B.while1_cond F (pre ++ rem) mx cur_item) (B.while1_body F (pre ++ rem) mx cur_item)
               (B.mk_st bo (zlen pre) cl lb lo ad ln) = Err e
    end.
  Proof.
    induction rem as [|[il ib] r IH]; intros f pre bo cl lb lo ad ln Hf.
    - cbn [consume_zero_width]. exists lo, []. split; [reflexivity|]. rewrite !app_nil_r. apply w1_stop_end.
    - cbn [consume_zero_width]. destruct (ib =? 0) eqn:E0.
      + destruct f as [|f']; [cbn in Hf; lia|].
        assert (Hf' : (length r <= f')%nat) by (cbn in Hf; lia).
        destruct il as [l|].
        * specialize (IH f' (pre ++ [(Some l, ib)]) bo (cl + l) lb (Some l) (adds_append ad bo l) ln Hf').
          replace ((pre ++ [(Some l, ib)]) ++ r) with (pre ++ (Some l, ib) :: r) in IH by (rewrite <- app_assoc; reflexivity).
          replace (zlen (pre ++ [(Some l, ib)])) with (zlen pre + 1) in IH by (rewrite zlen_app'; reflexivity).
          destruct (consume_zero_width r bo (cl + l) (adds_append ad bo l)) as [[[rem' cl'] ad']|e].
          -- destruct IH as (lo' & p & Ep & Hw). exists lo', ((Some l, ib) :: p). split; [cbn; rewrite Ep; reflexivity|].
             cbn [while_]. rewrite w1_cond, E0. cbv iota. rewrite w1_body. cbv iota. etransitivity; [exact Hw|]. rewrite <- app_assoc. reflexivity.
          -- cbn [while_]. rewrite w1_cond, E0. cbv iota. rewrite w1_body. cbv iota. exact IH.
        * cbn [while_]. rewrite w1_cond, E0. cbv iota. rewrite w1_body. reflexivity.
      + exists lo, []. split; [reflexivity|]. rewrite app_nil_r.
        destruct f; cbn [while_]; rewrite w1_cond, E0; reflexivity.
  Qed.
End Inner.

Definition agrees (a : res linemap) (b : res B.st) : Prop :=
  match a with
  | OK m => exists s', b = OK s' /\ B.v_offset_to_line s' = lm_lines m /\ B.v_offset_to_additional_line_offsets s' = lm_adds m
  | Err e => b = Err e
  end.

Section Outer.
  Variables (F : nat) (mx : Z) (full : list citem).
  Hypothesis HF : (length full <= F)%nat.

  Lemma w2_cond : forall pre rem bo cl lb lo ad ln, full = pre ++ rem ->
    B.while2_cond F full mx (B.mk_st bo (zlen pre) cl lb lo ad ln)
    = OK ((bo <? mx) || negb (match rem with [] => true | _ => false end)).
  Proof.
    intros pre rem bo cl lb lo ad ln E. unfold B.while2_cond. bnorm. f_equal. f_equal.
    subst full. destruct rem as [|x r]; cbn [negb]; unfold zlen; rewrite app_length; cbn [length]; lia.
  Qed.

  Lemma suffix_len : forall (pre rem : list citem), full = pre ++ rem -> (length rem <= F)%nat.
  Proof. intros pre rem E. subst full. rewrite app_length in HF. lia. Qed.

  Lemma w2_body_nil : forall pre bo cl lb lo ad ln, full = pre ->
    B.while2_body F full mx (B.mk_st bo (zlen pre) cl lb lo ad ln)
    = OK (B.mk_st (bo + 2) (zlen pre) cl lb lo ad (oset ln bo (Some cl))).
  Proof.
    intros pre bo cl lb lo ad ln E. unfold B.while2_body. bnorm. subst full. rewrite Z.ltb_irrefl. reflexivity.
  Qed.

  Definition finish (s2 : B.st) : B.st :=
    B.mk_st (B.v_bytecode_offset s2 + 2) (B.v_current_item_offset s2) (B.v_current_line s2) (B.v_last_bytecode_offset s2)
            (B.v_line_offset s2) (B.v_offset_to_additional_line_offsets s2)
            (oset (B.v_offset_to_line s2) (B.v_bytecode_offset s2) (Some (B.v_current_line s2))).

  Lemma w2_body_cons : forall pre il ib r bo cl lb lo ad ln, full = pre ++ (il, ib) :: r ->
    B.while2_body F full mx (B.mk_st bo (zlen pre) cl lb lo ad ln)
    = bind (if bo - lb =? ib
            then match il with
                 | Some l => OK (B.mk_st bo (zlen pre + 1) (cl + l) bo lo (if l =? 0 then adds_append ad bo 0 else ad) ln)
                 | None => Err TypeError
                 end
            else OK (B.mk_st bo (zlen pre) cl lb lo ad ln))
        (fun s1 => bind (while_ F (B.while1_cond F full mx (il, ib)) (B.while1_body F full mx (il, ib)) s1)
                        (fun s2 => OK (finish s2))).
  Proof.
    intros pre il ib r bo cl lb lo ad ln E. unfold B.while2_body. bnorm.
    assert (H1 : (zlen pre <? zlen full) = true)
      by (rewrite E; unfold zlen; rewrite app_length; cbn [length]; lia).
    assert (H2 : name_at full (zlen pre) = OK (il, ib)) by (rewrite E; apply name_at_app').
    unfold citem in *. rewrite H1, H2.
    bnorm. destruct (bo - lb =? ib).
    - destruct il as [l|]; bnorm; [|reflexivity]. cbn [opt_eqz]. destruct (l =? 0); bnorm; reflexivity.
    - reflexivity.
  Qed.

  Lemma outer_while : forall f rem pre bo cl lb lo ad ln, full = pre ++ rem ->
    agrees (items_to_mapping_lnotab f rem mx lb cl bo ln ad)
           (while_ f (B.while2_cond F full mx) (B.while2_body F full mx) (B.mk_st bo (zlen pre) cl lb lo ad ln)).
  Proof.
    induction f as [|f IH]; intros rem pre bo cl lb lo ad ln E.
    - cbn [items_to_mapping_lnotab while_]. rewrite (w2_cond pre rem) by exact E.
      destruct ((bo <? mx) || negb (match rem with [] => true | _ => false end)); cbn [negb agrees].
      + reflexivity.
      + eexists. split; [reflexivity|]. split; reflexivity.
    - cbn [items_to_mapping_lnotab while_]. rewrite (w2_cond pre rem) by exact E.
      destruct ((bo <? mx) || negb (match rem with [] => true | _ => false end)) eqn:Ec; cbn [negb].
      2:{ cbn [agrees]. eexists. split; [reflexivity|]. split; reflexivity. }
      destruct rem as [|[il ib] r].
      + rewrite (w2_body_nil pre) by (rewrite E, app_nil_r; reflexivity).
        apply (IH [] pre (bo + 2) cl lb lo ad (oset ln bo (Some cl))). exact E.
      + rewrite (w2_body_cons pre il ib r) by exact E.
        destruct (bo - lb =? ib) eqn:Eb.
        * destruct il as [l|]; [|reflexivity].
          assert (E2 : full = (pre ++ [(Some l, ib)]) ++ r) by (subst full; rewrite <- app_assoc; reflexivity).
          pose proof (inner_while F mx (Some l, ib) r F (pre ++ [(Some l, ib)]) bo (cl + l) bo lo
                        (if l =? 0 then adds_append ad bo 0 else ad) ln (suffix_len _ _ E2)) as Hin.
          rewrite <- E2 in Hin.
          replace (zlen (pre ++ [(Some l, ib)])) with (zlen pre + 1) in Hin by (rewrite zlen_app'; reflexivity).
          destruct (consume_zero_width r bo (cl + l) (if l =? 0 then adds_append ad bo 0 else ad)) as [[[rem' cl'] ad']|e].
          -- destruct Hin as (lo' & p & Ep & Hw). cbn [bind]. unfold citem in *. rewrite Hw. cbn [bind]. unfold finish.
             cbn [B.v_bytecode_offset B.v_current_item_offset B.v_current_line B.v_last_bytecode_offset B.v_line_offset
                  B.v_offset_to_additional_line_offsets B.v_offset_to_line].
             apply (IH rem' ((pre ++ [(Some l, ib)]) ++ p) (bo + 2) cl' bo lo' ad' (oset ln bo (Some cl'))).
             rewrite E2 at 1. rewrite Ep, app_assoc. reflexivity.
          -- cbn [bind]. unfold citem in *. rewrite Hin. reflexivity.
        * pose proof (inner_while F mx (il, ib) ((il, ib) :: r) F pre bo cl lb lo ad ln (suffix_len _ _ E)) as Hin.
          unfold citem in *. rewrite <- E in Hin.
          destruct (consume_zero_width ((il, ib) :: r) bo cl ad) as [[[rem' cl'] ad']|e].
          -- destruct Hin as (lo' & p & Ep & Hw). cbn [bind]. unfold citem in *. rewrite Hw. cbn [bind]. unfold finish.
             cbn [B.v_bytecode_offset B.v_current_item_offset B.v_current_line B.v_last_bytecode_offset B.v_line_offset
                  B.v_offset_to_additional_line_offsets B.v_offset_to_line].
             apply (IH rem' (pre ++ p) (bo + 2) cl' lb lo' ad' (oset ln bo (Some cl'))).
             rewrite E at 1. rewrite Ep, app_assoc. reflexivity.
          -- cbn [bind]. unfold citem in *. rewrite Hin. reflexivity.
  Qed.
End Outer.

Theorem items_to_mapping_lnotab_tie : forall F items mx,
  (length items <= F)%nat ->
  B.run F items mx =
  match items_to_mapping_lnotab F items mx 0 0 0 [] [] with OK m => OK (lm_lines m, lm_adds m) | Err e => Err e end.
Proof.
  intros F items mx HF. unfold B.run, B.body, B.init.
  pose proof (outer_while F mx items HF F items [] 0 0 0 None [] [] eq_refl) as H.
  change (zlen (@nil citem)) with 0 in H. unfold agrees in H.
  destruct (items_to_mapping_lnotab F items mx 0 0 0 [] []) as [m|e].
  - destruct H as (s' & Hw & E1 & E2). rewrite Hw. cbn [bind]. rewrite E1, E2. reflexivity.
  - rewrite H. reflexivity.
Qed.

Print Assumptions items_to_mapping_lt_tie.
Print Assumptions items_to_mapping_lnotab_tie.
