(* Equality of constants (Model/Consts.v): equivalence relations, agreement with the reference
   partition of Spec/ConstKey.v, discrimination lemmas and hashes that respect equality. *)
From Coq Require Import ZArith List Bool Lia ZifyBool.
From PCD Require Import Base.PyBase Base.Cfg Model.Flags Model.Args Model.Data Model.Consts
  Spec.ConstKey.
Import ListNotations. Open Scope Z_scope.

(* ------------------------------------------------------------------ *)
(* Induction principles for the nested inductives                      *)

Section IconstInd.
  Context (P : iconst -> Prop).
  Context (HNone : P INone).
  Context (HBool : forall b, P (IBool b)).
  Context (HInt : forall z, P (IInt z)).
  Context (HFloat : forall f, P (IFloat f)).
  Context (HComplex : forall r i, P (IComplex r i)).
  Context (HStr : forall s, P (IStr s)).
  Context (HBytes : forall b, P (IBytes b)).
  Context (HEllipsis : P IEllipsis).
  Context (HTuple : forall l, Forall P l -> P (ITuple l)).
  Context (HFrozenset : forall l, Forall P l -> P (IFrozenset l)).

  Fixpoint iconst_ind' (c : iconst) : P c :=
    match c as c0 return P c0 with
    | INone => HNone
    | IBool b => HBool b
    | IInt z => HInt z
    | IFloat f => HFloat f
    | IComplex r i => HComplex r i
    | IStr s => HStr s
    | IBytes b => HBytes b
    | IEllipsis => HEllipsis
    | ITuple l =>
        HTuple l ((fix go (l : list iconst) : Forall P l :=
                     match l with
                     | [] => Forall_nil P
                     | x :: xs => Forall_cons x (iconst_ind' x) (go xs)
                     end) l)
    | IFrozenset l =>
        HFrozenset l ((fix go (l : list iconst) : Forall P l :=
                         match l with
                         | [] => Forall_nil P
                         | x :: xs => Forall_cons x (iconst_ind' x) (go xs)
                         end) l)
    end.
End IconstInd.

(* what a predicate on constants says about an operand / a CodeData *)
Definition argP {C} (P : C -> Prop) (a : arg_ C) : Prop :=
  match a with AConst c _ => P c | _ => True end.
Definition instrP {C} (P : C -> Prop) (i : instr_ C) : Prop := argP P (i_arg i).
Definition cdP {C} (P : C -> Prop) (cd : code_data_ C) : Prop :=
  Forall (Forall (instrP P)) (cd_blocks cd) /\ Forall (argP P) (cd_addargs cd).

Section ConstInd.
  Context (P : const -> Prop).
  Context (HInner : forall i, P (KInner i)).
  Context (HCode : forall cd, cdP P cd -> P (KCode cd)).

  Fixpoint const_ind' (c : const) : P c :=
    match c as c0 return P c0 with
    | KInner i => HInner i
    | KCode cd =>
        HCode cd
          (match cd as cd0 return cdP P cd0 with
           | mkCD bl fn fl nm ss ty fv fa ne al aa =>
               let argF := fun a : arg_ const =>
                 match a as a0 return argP P a0 with
                 | AConst c _ => const_ind' c
                 | _ => I
                 end in
               conj
                 ((fix goB (bs : list (list (instr_ const))) : Forall (Forall (instrP P)) bs :=
                     match bs with
                     | [] => Forall_nil _
                     | b :: bs' =>
                         Forall_cons b
                           ((fix goI (is : list (instr_ const)) : Forall (instrP P) is :=
                               match is with
                               | [] => Forall_nil _
                               | i :: is' =>
                                   Forall_cons i
                                     (match i as i0 return instrP P i0 with
                                      | mkInstr n a na ln lo => argF a
                                      end) (goI is')
                               end) b) (goB bs')
                     end) bl)
                 ((fix goA (l : list (arg_ const)) : Forall (argP P) l :=
                     match l with
                     | [] => Forall_nil _
                     | a :: l' => Forall_cons a (argF a) (goA l')
                     end) aa)
           end)
    end.
End ConstInd.

(* a predicate that holds everywhere holds inside every CodeData *)
Lemma argP_all {C} (P : C -> Prop) : (forall c, P c) -> forall a, argP P a.
Proof. intros H [ | | | | | | | ]; cbn; auto. Qed.

Lemma cdP_all {C} (P : C -> Prop) : (forall c, P c) -> forall cd, cdP P cd.
Proof.
  intros H cd. split.
  - apply Forall_forall. intros b _. apply Forall_forall. intros i _. apply argP_all, H.
  - apply Forall_forall. intros a _. apply argP_all, H.
Qed.

(* ------------------------------------------------------------------ *)
(* Ordered and set-wise comparison of listings, relative to Forall      *)

(* the shape of the frozenset case of ikey_eqb *)
Definition fs_eqb {A} (eqb : A -> A -> bool) (x y : list A) : bool :=
  forallb (fun p => existsb (fun q => eqb p q) y) x
  && forallb (fun q => existsb (fun p => eqb p q) x) y.

Lemma leqb_list_eqb {A} (eqb : A -> A -> bool) a b : leqb eqb a b = list_eqb eqb a b.
Proof. revert b; induction a as [|x xs IH]; intros [|y ys]; cbn; auto. now rewrite IH. Qed.

Lemma fs_eqb_true {A} (eqb : A -> A -> bool) x y :
  fs_eqb eqb x y = true <->
  (forall p, In p x -> exists q, In q y /\ eqb p q = true) /\
  (forall q, In q y -> exists p, In p x /\ eqb p q = true).
Proof.
  unfold fs_eqb. rewrite andb_true_iff, !forallb_forall.
  split; intros [H1 H2]; split; intros e He.
  - apply H1 in He. now apply existsb_exists in He.
  - apply H2 in He. now apply existsb_exists in He.
  - apply existsb_exists. now apply H1.
  - apply existsb_exists. now apply H2.
Qed.

Definition reflP {A} (eqb : A -> A -> bool) (x : A) : Prop := eqb x x = true.
Definition symP {A} (eqb : A -> A -> bool) (x : A) : Prop :=
  forall y, eqb x y = true -> eqb y x = true.
Definition transP {A} (eqb : A -> A -> bool) (x : A) : Prop :=
  forall y z, eqb x y = true -> eqb y z = true -> eqb x z = true.

Section RelLists.
  Context {A : Type} (eqb : A -> A -> bool).
  Lemma leqb_refl_F l : Forall (reflP eqb) l -> reflP (leqb eqb) l.
  Proof. unfold reflP. induction 1 as [|x xs Hx _ IH]; cbn; auto. now rewrite Hx, IH. Qed.

  Lemma leqb_sym_F l : Forall (symP eqb) l -> symP (leqb eqb) l.
  Proof.
    unfold symP. induction 1 as [|x xs Hx _ IH]; intros [|y ys] E; cbn in *; try discriminate; auto.
    apply andb_true_iff in E as [E1 E2]. now rewrite (Hx _ E1), (IH _ E2).
  Qed.

  Lemma leqb_trans_F l : Forall (transP eqb) l -> transP (leqb eqb) l.
  Proof.
    unfold transP. induction 1 as [|x xs Hx _ IH]; intros [|y ys] [|z zs] E F; cbn in *; try discriminate; auto.
    apply andb_true_iff in E as [E1 E2]. apply andb_true_iff in F as [F1 F2].
    now rewrite (Hx _ _ E1 F1), (IH _ _ E2 F2).
  Qed.

  Lemma fs_eqb_refl_F l : Forall (reflP eqb) l -> reflP (fs_eqb eqb) l.
  Proof.
    intros H. unfold reflP in *. rewrite Forall_forall in H. apply fs_eqb_true.
    split; intros p Hp; exists p; split; auto; now apply H.
  Qed.

  Lemma fs_eqb_sym_F l : Forall (symP eqb) l -> symP (fs_eqb eqb) l.
  Proof.
    intros H l' E. unfold symP in *. rewrite Forall_forall in H. apply fs_eqb_true in E as [E1 E2].
    apply fs_eqb_true. split.
    - intros q Hq. destruct (E2 q Hq) as (p & Hp & Hpq). exists p. split; [exact Hp|]. now apply H.
    - intros p Hp. destruct (E1 p Hp) as (q & Hq & Hpq). exists q. split; [exact Hq|]. now apply H.
  Qed.

  Lemma fs_eqb_trans_F l : Forall (transP eqb) l -> transP (fs_eqb eqb) l.
  Proof.
    intros H l' l'' E F. unfold transP in *. rewrite Forall_forall in H.
    apply fs_eqb_true in E as [E1 E2]. apply fs_eqb_true in F as [F1 F2].
    apply fs_eqb_true. split.
    - intros p Hp. destruct (E1 p Hp) as (q & Hq & Hpq). destruct (F1 q Hq) as (r & Hr & Hqr).
      exists r. split; auto. exact (H p Hp q r Hpq Hqr).
    - intros r Hr. destruct (F2 r Hr) as (q & Hq & Hqr). destruct (E2 q Hq) as (p & Hp & Hpq).
      exists p. split; auto. exact (H p Hp q r Hpq Hqr).
  Qed.
End RelLists.

(* list_eqb (PyBase) is leqb, and option_eqb preserves the three properties as well *)
Section RelListsOpt.
  Context {A : Type} (eqb : A -> A -> bool).
  Lemma list_eqb_refl_F l : Forall (reflP eqb) l -> reflP (list_eqb eqb) l.
  Proof. intros H. unfold reflP. rewrite <- leqb_list_eqb. now apply leqb_refl_F. Qed.
  Lemma list_eqb_sym_F l : Forall (symP eqb) l -> symP (list_eqb eqb) l.
  Proof. intros H y. rewrite <- !leqb_list_eqb. now apply leqb_sym_F. Qed.
  Lemma list_eqb_trans_F l : Forall (transP eqb) l -> transP (list_eqb eqb) l.
  Proof. intros H y z. rewrite <- !leqb_list_eqb. now apply leqb_trans_F. Qed.

  Lemma option_eqb_refl o : (forall x, reflP eqb x) -> reflP (option_eqb eqb) o.
  Proof. intros H. unfold reflP in *. destruct o; cbn; auto. Qed.
  Lemma option_eqb_sym o : (forall x, symP eqb x) -> symP (option_eqb eqb) o.
  Proof. intros H. unfold symP in *. intros [y|] E; destruct o; cbn in *; try discriminate E; auto. Qed.
  Lemma option_eqb_trans o : (forall x, transP eqb x) -> transP (option_eqb eqb) o.
  Proof.
    intros H. unfold transP in *.
    intros [y|] [z|] E F; destruct o; cbn in *; try discriminate E; try discriminate F; eauto.
  Qed.
End RelListsOpt.

(* ------------------------------------------------------------------ *)
(* Floats                                                               *)

Lemma float_key_eqb_refl x : float_key_eqb x x = true.
Proof. unfold float_key_eqb. rewrite Z.eqb_refl. apply orb_true_r. Qed.

Lemma float_key_eqb_sym x y : float_key_eqb x y = float_key_eqb y x.
Proof. unfold float_key_eqb. now rewrite (andb_comm (float_is_nan x)), (Z.eqb_sym x y). Qed.

Lemma float_key_eqb_trans x y z :
  float_key_eqb x y = true -> float_key_eqb y z = true -> float_key_eqb x z = true.
Proof.
  unfold float_key_eqb. generalize float_is_nan. intros nan E F.
  apply orb_true_iff in E as [E|E]; [|apply Z.eqb_eq in E; subst; exact F].
  apply orb_true_iff in F as [F|F]; [|apply Z.eqb_eq in F; subst; now rewrite E].
  apply andb_true_iff in E as [E1 _]. apply andb_true_iff in F as [_ F2].
  now rewrite E1, F2.
Qed.

(* ------------------------------------------------------------------ *)
(* 1. ikey_eqb is an equivalence relation                               *)

(* the local fixes of the model are leqb and fs_eqb *)
Lemma ikey_eqb_tuple x y : ikey_eqb (ITuple x) (ITuple y) = leqb ikey_eqb x y.
Proof. cbn [ikey_eqb]. revert y. induction x as [|p ps IH]; intros [|q qs]; cbn; auto. Qed.

Lemma ikey_eqb_frozenset x y : ikey_eqb (IFrozenset x) (IFrozenset y) = fs_eqb ikey_eqb x y.
Proof.
  cbn [ikey_eqb]. unfold fs_eqb. f_equal.
  induction x as [|p ps IH]; cbn; auto. rewrite IH. reflexivity.
Qed.

Lemma zlist_eqb_spec a b : list_eqb Z.eqb a b = true <-> a = b.
Proof. apply list_eqb_spec. intros; apply Z.eqb_eq. Qed.

Lemma zlist_eqb_refl a : list_eqb Z.eqb a a = true.
Proof. now apply zlist_eqb_spec. Qed.

Lemma str_eqb_refl a : str_eqb a a = true.
Proof. now apply str_eqb_spec. Qed.

Theorem ikey_eqb_refl : forall a, ikey_eqb a a = true.
Proof.
  induction a as [ |b|z|f|r i|s|b| |l IH|l IH] using iconst_ind'; try reflexivity.
  - now destruct b.
  - apply Z.eqb_refl.
  - apply float_key_eqb_refl.
  - cbn [ikey_eqb]. now rewrite !float_key_eqb_refl.
  - apply str_eqb_refl.
  - apply zlist_eqb_refl.
  - rewrite ikey_eqb_tuple. now apply leqb_refl_F.
  - rewrite ikey_eqb_frozenset. now apply fs_eqb_refl_F.
Qed.

Theorem ikey_eqb_sym : forall a b, ikey_eqb a b = true -> ikey_eqb b a = true.
Proof.
  induction a as [ |b|z|f|r i|s|b| |l IH|l IH] using iconst_ind';
    intros [ |b'|z'|f'|r' i'|s'|b'| |l'|l'] E; try discriminate E; auto.
  - cbn in *. destruct b, b'; auto.
  - cbn in *. now rewrite Z.eqb_sym.
  - cbn [ikey_eqb] in *. now rewrite float_key_eqb_sym.
  - cbn [ikey_eqb] in *. now rewrite (float_key_eqb_sym r'), (float_key_eqb_sym i').
  - cbn [ikey_eqb] in *. apply str_eqb_spec in E. subst. apply str_eqb_refl.
  - cbn [ikey_eqb] in *. apply zlist_eqb_spec in E. subst. apply zlist_eqb_refl.
  - rewrite ikey_eqb_tuple in *. now apply leqb_sym_F.
  - rewrite ikey_eqb_frozenset in *. now apply fs_eqb_sym_F.
Qed.

Theorem ikey_eqb_trans : forall a b c,
  ikey_eqb a b = true -> ikey_eqb b c = true -> ikey_eqb a c = true.
Proof.
  induction a as [ |b|z|f|r i|s|b| |l IH|l IH] using iconst_ind';
    intros [ |b'|z'|f'|r' i'|s'|b'| |l'|l'] [ |b''|z''|f''|r'' i''|s''|b''| |l''|l''] E F;
    try discriminate E; try discriminate F; auto.
  - cbn in *. destruct b, b', b''; auto.
  - cbn in *. lia.
  - cbn [ikey_eqb] in *. eapply float_key_eqb_trans; eauto.
  - cbn [ikey_eqb] in *. apply andb_true_iff in E as [E1 E2]. apply andb_true_iff in F as [F1 F2].
    rewrite (float_key_eqb_trans _ _ _ E1 F1), (float_key_eqb_trans _ _ _ E2 F2). reflexivity.
  - cbn [ikey_eqb] in *. apply str_eqb_spec in E. now subst.
  - cbn [ikey_eqb] in *. apply zlist_eqb_spec in E. now subst.
  - rewrite ikey_eqb_tuple in *. eapply leqb_trans_F; eauto.
  - rewrite ikey_eqb_frozenset in *. eapply fs_eqb_trans_F; eauto.
Qed.

Corollary ikey_eqb_sym_eq a b : ikey_eqb a b = ikey_eqb b a.
Proof. apply eq_true_iff_eq. split; apply ikey_eqb_sym. Qed.

(* ------------------------------------------------------------------ *)
(* 2. key_eqb and cd_eqb are equivalence relations                      *)

(* the fields without constants are compared with decidable Leibniz equality *)
Lemma option_eqb_spec {A} (eqb : A -> A -> bool) :
  (forall x y, eqb x y = true <-> x = y) ->
  forall a b, option_eqb eqb a b = true <-> a = b.
Proof.
  intros H [x|] [y|]; cbn; split; intros E; try discriminate; auto.
  - apply H in E. now subst.
  - inversion E; subst. now apply H.
Qed.

Lemma strlist_eqb_spec a b : list_eqb str_eqb a b = true <-> a = b.
Proof. apply list_eqb_spec, str_eqb_spec. Qed.
Lemma ostr_eqb_spec a b : option_eqb str_eqb a b = true <-> a = b.
Proof. apply option_eqb_spec, str_eqb_spec. Qed.
Lemma oz_eqb_spec a b : option_eqb Z.eqb a b = true <-> a = b.
Proof. apply option_eqb_spec. intros; apply Z.eqb_eq. Qed.
Lemma bool_eqb_spec a b : Bool.eqb a b = true <-> a = b.
Proof. apply Bool.eqb_true_iff. Qed.

Lemma args_eqb_spec a b : args_eqb a b = true <-> a = b.
Proof.
  destruct a as [a1 a2 a3 a4 a5], b as [b1 b2 b3 b4 b5]. unfold args_eqb. cbn.
  rewrite !andb_true_iff, !strlist_eqb_spec, !ostr_eqb_spec.
  split.
  - intros [[[[-> ->] ->] ->] ->]. reflexivity.
  - intros E. inversion E. auto.
Qed.

Lemma fntype_eqb_spec a b : fntype_eqb a b = true <-> a = b.
Proof. destruct a, b; cbn; split; intros E; try discriminate; auto. Qed.

Lemma function_eqb_spec a b : function_eqb a b = true <-> a = b.
Proof.
  destruct a as [a1 a2 a3], b as [b1 b2 b3]. unfold function_eqb. cbn.
  rewrite !andb_true_iff, args_eqb_spec, ostr_eqb_spec, (option_eqb_spec _ fntype_eqb_spec).
  split.
  - intros [[-> ->] ->]. reflexivity.
  - intros E. inversion E. auto.
Qed.

Lemma addline_eqb_spec a b : addline_eqb a b = true <-> a = b.
Proof.
  destruct a as [a1 a2], b as [b1 b2]. unfold addline_eqb. cbn.
  rewrite !andb_true_iff, oz_eqb_spec, zlist_eqb_spec.
  split.
  - intros [-> ->]. reflexivity.
  - intros E. inversion E. auto.
Qed.

Section DataRel.
  Context {C : Type} (ceqb : C -> C -> bool).

  Lemma instr_eqb_true a b :
    instr_eqb ceqb a b = true <->
    i_name a = i_name b /\ arg_eqb ceqb (i_arg a) (i_arg b) = true /\ i_nargs a = i_nargs b
    /\ i_line a = i_line b /\ i_lineoffs a = i_lineoffs b.
  Proof.
    unfold instr_eqb. rewrite !andb_true_iff, Z.eqb_eq, !oz_eqb_spec, zlist_eqb_spec. tauto.
  Qed.

  Lemma cd_eqb_with_true a b :
    cd_eqb_with ceqb a b = true <->
    leqb (leqb (instr_eqb ceqb)) (cd_blocks a) (cd_blocks b) = true
    /\ cd_filename a = cd_filename b /\ cd_firstline a = cd_firstline b
    /\ cd_name a = cd_name b /\ cd_stacksize a = cd_stacksize b /\ cd_type a = cd_type b
    /\ cd_freevars a = cd_freevars b /\ cd_future_annotations a = cd_future_annotations b
    /\ cd_nested a = cd_nested b /\ cd_addline a = cd_addline b
    /\ leqb (arg_eqb ceqb) (cd_addargs a) (cd_addargs b) = true.
  Proof.
    unfold cd_eqb_with.
    rewrite !andb_true_iff, !str_eqb_spec, !Z.eqb_eq, strlist_eqb_spec, !bool_eqb_spec,
      (option_eqb_spec _ function_eqb_spec), (option_eqb_spec _ addline_eqb_spec). tauto.
  Qed.

  (* operands *)
  Lemma arg_eqb_refl a : argP (reflP ceqb) a -> reflP (arg_eqb ceqb) a.
  Proof.
    unfold reflP. destruct a; cbn; intros H;
      rewrite ?Z.eqb_refl, ?str_eqb_refl, ?(proj2 (oz_eqb_spec _ _) eq_refl), ?H; auto.
    now destruct relative.
  Qed.

  Lemma arg_eqb_sym a : argP (symP ceqb) a -> symP (arg_eqb ceqb) a.
  Proof.
    unfold symP. destruct a; cbn [argP]; intros H [ | | | | | | | ] E; cbn in E |- *;
      try discriminate E;
      rewrite ?andb_true_iff, ?Z.eqb_eq, ?str_eqb_spec, ?oz_eqb_spec, ?bool_eqb_spec in *;
      intuition (subst; auto).
  Qed.

  Lemma arg_eqb_trans a : argP (transP ceqb) a -> transP (arg_eqb ceqb) a.
  Proof.
    unfold transP. destruct a; cbn [argP]; intros H [ | | | | | | | ] [ | | | | | | | ] E F;
      cbn in E, F |- *; try discriminate E; try discriminate F;
      rewrite ?andb_true_iff, ?Z.eqb_eq, ?str_eqb_spec, ?oz_eqb_spec, ?bool_eqb_spec in *;
      intuition (subst; eauto).
  Qed.

  (* instructions *)
  Lemma instr_eqb_refl i : instrP (reflP ceqb) i -> reflP (instr_eqb ceqb) i.
  Proof.
    intros H. unfold reflP. apply instr_eqb_true. repeat split; auto. now apply arg_eqb_refl.
  Qed.

  Lemma instr_eqb_sym i : instrP (symP ceqb) i -> symP (instr_eqb ceqb) i.
  Proof.
    intros H j E. apply instr_eqb_true in E as (E1 & E2 & E3 & E4 & E5).
    apply instr_eqb_true. repeat split; auto. now apply arg_eqb_sym.
  Qed.

  Lemma instr_eqb_trans i : instrP (transP ceqb) i -> transP (instr_eqb ceqb) i.
  Proof.
    intros H j k E F. apply instr_eqb_true in E as (E1 & E2 & E3 & E4 & E5).
    apply instr_eqb_true in F as (F1 & F2 & F3 & F4 & F5).
    apply instr_eqb_true. repeat split; try congruence. eapply arg_eqb_trans; eauto.
  Qed.

  (* blocks *)
  Lemma block_eqb_refl b : Forall (instrP (reflP ceqb)) b -> reflP (leqb (instr_eqb ceqb)) b.
  Proof. intros H. apply leqb_refl_F. eapply Forall_impl; [|exact H]. apply instr_eqb_refl. Qed.

  Lemma block_eqb_sym b : Forall (instrP (symP ceqb)) b -> symP (leqb (instr_eqb ceqb)) b.
  Proof. intros H. apply leqb_sym_F. eapply Forall_impl; [|exact H]. apply instr_eqb_sym. Qed.

  Lemma block_eqb_trans b : Forall (instrP (transP ceqb)) b -> transP (leqb (instr_eqb ceqb)) b.
  Proof. intros H. apply leqb_trans_F. eapply Forall_impl; [|exact H]. apply instr_eqb_trans. Qed.

  (* CodeData *)
  Lemma cd_eqb_with_refl cd : cdP (reflP ceqb) cd -> reflP (cd_eqb_with ceqb) cd.
  Proof.
    intros [HB HA]. unfold reflP. apply cd_eqb_with_true. repeat split; auto.
    - apply leqb_refl_F. eapply Forall_impl; [|exact HB]. apply block_eqb_refl.
    - apply leqb_refl_F. eapply Forall_impl; [|exact HA]. apply arg_eqb_refl.
  Qed.

  Lemma cd_eqb_with_sym cd : cdP (symP ceqb) cd -> symP (cd_eqb_with ceqb) cd.
  Proof.
    intros [HB HA] cd' E.
    apply cd_eqb_with_true in E as (E1 & E2 & E3 & E4 & E5 & E6 & E7 & E8 & E9 & E10 & E11).
    apply cd_eqb_with_true. repeat split; auto.
    - revert E1. apply leqb_sym_F. eapply Forall_impl; [|exact HB]. apply block_eqb_sym.
    - revert E11. apply leqb_sym_F. eapply Forall_impl; [|exact HA]. apply arg_eqb_sym.
  Qed.

  Lemma cd_eqb_with_trans cd : cdP (transP ceqb) cd -> transP (cd_eqb_with ceqb) cd.
  Proof.
    intros [HB HA] cd' cd'' E F.
    apply cd_eqb_with_true in E as (E1 & E2 & E3 & E4 & E5 & E6 & E7 & E8 & E9 & E10 & E11).
    apply cd_eqb_with_true in F as (F1 & F2 & F3 & F4 & F5 & F6 & F7 & F8 & F9 & F10 & F11).
    apply cd_eqb_with_true. repeat split; try congruence.
    - revert E1 F1. apply leqb_trans_F. eapply Forall_impl; [|exact HB]. apply block_eqb_trans.
    - revert E11 F11. apply leqb_trans_F. eapply Forall_impl; [|exact HA]. apply arg_eqb_trans.
  Qed.
End DataRel.

Theorem key_eqb_refl : forall a, key_eqb a a = true.
Proof.
  induction a as [i|cd IH] using const_ind'; cbn [key_eqb].
  - apply ikey_eqb_refl.
  - now apply cd_eqb_with_refl.
Qed.

Theorem key_eqb_sym : forall a b, key_eqb a b = true -> key_eqb b a = true.
Proof.
  induction a as [i|cd IH] using const_ind'; intros [j|cd'] E; cbn [key_eqb] in *;
    try discriminate E.
  - now apply ikey_eqb_sym.
  - now apply (cd_eqb_with_sym key_eqb cd IH).
Qed.

Theorem key_eqb_trans : forall a b c,
  key_eqb a b = true -> key_eqb b c = true -> key_eqb a c = true.
Proof.
  induction a as [i|cd IH] using const_ind'; intros [j|cd'] [k|cd''] E F; cbn [key_eqb] in *;
    try discriminate E; try discriminate F.
  - eapply ikey_eqb_trans; eauto.
  - exact (cd_eqb_with_trans key_eqb cd IH cd' cd'' E F).
Qed.

Corollary key_eqb_sym_eq a b : key_eqb a b = key_eqb b a.
Proof. apply eq_true_iff_eq. split; apply key_eqb_sym. Qed.

Theorem cd_eqb_refl : forall a, cd_eqb a a = true.
Proof. intros a. apply (cd_eqb_with_refl key_eqb). apply cdP_all. exact key_eqb_refl. Qed.

Theorem cd_eqb_sym : forall a b, cd_eqb a b = true -> cd_eqb b a = true.
Proof. intros a. apply (cd_eqb_with_sym key_eqb). apply cdP_all. exact key_eqb_sym. Qed.

Theorem cd_eqb_trans : forall a b c, cd_eqb a b = true -> cd_eqb b c = true -> cd_eqb a c = true.
Proof. intros a. apply (cd_eqb_with_trans key_eqb). apply cdP_all. exact key_eqb_trans. Qed.

Corollary cd_eqb_sym_eq a b : cd_eqb a b = cd_eqb b a.
Proof. apply eq_true_iff_eq. split; apply cd_eqb_sym. Qed.

(* ------------------------------------------------------------------ *)
(* 4. Discrimination                                                    *)

Lemma ikey_int_bool z b : ikey_eqb (IInt z) (IBool b) = false.
Proof. reflexivity. Qed.
Lemma ikey_bool_int z b : ikey_eqb (IBool b) (IInt z) = false.
Proof. reflexivity. Qed.
Lemma ikey_int_float z f : ikey_eqb (IInt z) (IFloat f) = false.
Proof. reflexivity. Qed.
Lemma ikey_float_int z f : ikey_eqb (IFloat f) (IInt z) = false.
Proof. reflexivity. Qed.
Lemma ikey_bool_float b f : ikey_eqb (IBool b) (IFloat f) = false.
Proof. reflexivity. Qed.
Lemma ikey_float_bool b f : ikey_eqb (IFloat f) (IBool b) = false.
Proof. reflexivity. Qed.
Lemma ikey_float_complex f r i : ikey_eqb (IFloat f) (IComplex r i) = false.
Proof. reflexivity. Qed.
Lemma ikey_str_bytes s t : ikey_eqb (IStr s) (IBytes t) = false.
Proof. reflexivity. Qed.
Lemma ikey_bytes_str s t : ikey_eqb (IBytes s) (IStr t) = false.
Proof. reflexivity. Qed.
Lemma ikey_tuple_frozenset l1 l2 : ikey_eqb (ITuple l1) (IFrozenset l2) = false.
Proof. reflexivity. Qed.
Lemma ikey_frozenset_tuple l1 l2 : ikey_eqb (IFrozenset l1) (ITuple l2) = false.
Proof. reflexivity. Qed.
Lemma ikey_none_ellipsis : ikey_eqb INone IEllipsis = false.
Proof. reflexivity. Qed.

(* constants built with different constructors are never equal *)
Definition iconst_tag (c : iconst) : Z :=
  match c with
  | INone => 0 | IBool _ => 1 | IInt _ => 2 | IFloat _ => 3 | IComplex _ _ => 4
  | IStr _ => 5 | IBytes _ => 6 | IEllipsis => 7 | ITuple _ => 8 | IFrozenset _ => 9
  end.
Lemma ikey_eqb_tag a b : ikey_eqb a b = true -> iconst_tag a = iconst_tag b.
Proof. destruct a, b; intros E; try discriminate E; reflexivity. Qed.

(* 0.0 and -0.0 *)
Lemma ikey_pos_neg_zero : ikey_eqb (IFloat 0) (IFloat 9223372036854775808) = false.
Proof. vm_compute. reflexivity. Qed.
Lemma ikey_neg_zero x : float_is_neg_zero x = true -> ikey_eqb (IFloat 0) (IFloat x) = false.
Proof. unfold float_is_neg_zero. intros E. apply Z.eqb_eq in E. subst. apply ikey_pos_neg_zero. Qed.

(* on the scalar constants equality is equality of the value *)
Lemma ikey_int_inv x y : ikey_eqb (IInt x) (IInt y) = true <-> x = y.
Proof. cbn. apply Z.eqb_eq. Qed.
Lemma ikey_bool_inv x y : ikey_eqb (IBool x) (IBool y) = true <-> x = y.
Proof. cbn. apply bool_eqb_spec. Qed.
Lemma ikey_str_inv x y : ikey_eqb (IStr x) (IStr y) = true <-> x = y.
Proof. cbn [ikey_eqb]. apply str_eqb_spec. Qed.
Lemma ikey_bytes_inv x y : ikey_eqb (IBytes x) (IBytes y) = true <-> x = y.
Proof. cbn [ikey_eqb]. apply zlist_eqb_spec. Qed.

(* floats: equal iff both NaN or the same pattern *)
Lemma float_key_eqb_true x y :
  float_key_eqb x y = true <-> (float_is_nan x = true /\ float_is_nan y = true) \/ x = y.
Proof. unfold float_key_eqb. now rewrite orb_true_iff, andb_true_iff, Z.eqb_eq. Qed.
Lemma ikey_float_inv x y :
  ikey_eqb (IFloat x) (IFloat y) = true <->
  (float_is_nan x = true /\ float_is_nan y = true) \/ x = y.
Proof. cbn [ikey_eqb]. apply float_key_eqb_true. Qed.
Lemma ikey_float_not_nan x y :
  float_is_nan x = false -> (ikey_eqb (IFloat x) (IFloat y) = true <-> x = y).
Proof.
  intros N. rewrite ikey_float_inv. split; [|now right].
  intros [[E _]|E]; [congruence|exact E].
Qed.
Lemma ikey_float_neq x y :
  float_is_nan x = false -> x <> y -> ikey_eqb (IFloat x) (IFloat y) = false.
Proof.
  intros N D. apply not_true_iff_false. intros E. now apply (ikey_float_not_nan x y N) in E.
Qed.

(* complex: both parts have to agree *)
Lemma ikey_complex_inv r1 i1 r2 i2 :
  ikey_eqb (IComplex r1 i1) (IComplex r2 i2) = true <->
  float_key_eqb r1 r2 = true /\ float_key_eqb i1 i2 = true.
Proof. cbn [ikey_eqb]. apply andb_true_iff. Qed.
Lemma ikey_complex_re r1 i1 r2 i2 :
  float_key_eqb r1 r2 = false -> ikey_eqb (IComplex r1 i1) (IComplex r2 i2) = false.
Proof. intros E. cbn [ikey_eqb]. now rewrite E. Qed.
Lemma ikey_complex_im r1 i1 r2 i2 :
  float_key_eqb i1 i2 = false -> ikey_eqb (IComplex r1 i1) (IComplex r2 i2) = false.
Proof. intros E. cbn [ikey_eqb]. rewrite E. apply andb_false_r. Qed.
Lemma ikey_complex_signed_zero :
  ikey_eqb (IComplex 0 0) (IComplex 0 9223372036854775808) = false
  /\ ikey_eqb (IComplex 0 0) (IComplex 9223372036854775808 0) = false.
Proof. split; vm_compute; reflexivity. Qed.

(* tuples: same length and pairwise equal, so a difference anywhere inside shows *)
Lemma leqb_Forall2 {A} (eqb : A -> A -> bool) l1 l2 :
  leqb eqb l1 l2 = true <-> Forall2 (fun x y => eqb x y = true) l1 l2.
Proof.
  revert l2. induction l1 as [|x xs IH]; intros [|y ys]; cbn; split; intros E;
    try discriminate E; try constructor; try (now inversion E).
  - apply andb_true_iff in E. tauto.
  - apply IH. apply andb_true_iff in E. tauto.
  - inversion E; subst. apply andb_true_iff. split; auto. now apply IH.
Qed.

Lemma ikey_tuple_inv l1 l2 :
  ikey_eqb (ITuple l1) (ITuple l2) = true <-> Forall2 (fun x y => ikey_eqb x y = true) l1 l2.
Proof. rewrite ikey_eqb_tuple. apply leqb_Forall2. Qed.

Lemma ikey_tuple_length l1 l2 :
  ikey_eqb (ITuple l1) (ITuple l2) = true -> length l1 = length l2.
Proof. intros E. apply ikey_tuple_inv in E. induction E; cbn; congruence. Qed.

Lemma ikey_tuple_nth l1 l2 n x y :
  ikey_eqb (ITuple l1) (ITuple l2) = true ->
  nth_error l1 n = Some x -> nth_error l2 n = Some y -> ikey_eqb x y = true.
Proof.
  intros E. apply ikey_tuple_inv in E. revert n.
  induction E as [|a b l l' Hab _ IH]; intros [|n] H1 H2; cbn in *; try discriminate.
  - now inversion H1; inversion H2; subst.
  - eauto.
Qed.

Lemma ikey_tuple_diff l1 l2 n x y :
  nth_error l1 n = Some x -> nth_error l2 n = Some y -> ikey_eqb x y = false ->
  ikey_eqb (ITuple l1) (ITuple l2) = false.
Proof.
  intros H1 H2 D. apply not_true_iff_false. intros E.
  rewrite (ikey_tuple_nth _ _ _ _ _ E H1 H2) in D. discriminate.
Qed.

(* frozensets: mutual inclusion up to ikey_eqb *)
Lemma ikey_frozenset_inv l1 l2 :
  ikey_eqb (IFrozenset l1) (IFrozenset l2) = true <->
  (forall p, In p l1 -> exists q, In q l2 /\ ikey_eqb p q = true) /\
  (forall q, In q l2 -> exists p, In p l1 /\ ikey_eqb p q = true).
Proof. rewrite ikey_eqb_frozenset. apply fs_eqb_true. Qed.

(* nested code is never equal to an inner constant *)
Lemma key_inner_code i cd : key_eqb (KInner i) (KCode cd) = false.
Proof. reflexivity. Qed.
Lemma key_code_inner i cd : key_eqb (KCode cd) (KInner i) = false.
Proof. reflexivity. Qed.

(* ------------------------------------------------------------------ *)
(* 3. The model against the reference partition of Spec/ConstKey.v      *)

(* the two NaN tests: masks in the model, exponent / mantissa fields in the reference *)
Lemma land_shifted_mask b m : Z.land b (Z.shiftl m 52) = Z.shiftl (Z.land (Z.shiftr b 52) m) 52.
Proof.
  apply Z.bits_inj'. intros n Hn. rewrite Z.land_spec. destruct (Z.ltb_spec n 52) as [L|L].
  - rewrite !Z.shiftl_spec_low by lia. apply andb_false_r.
  - rewrite !Z.shiftl_spec by lia. rewrite Z.land_spec, Z.shiftr_spec by lia.
    replace (n - 52 + 52) with n by lia. reflexivity.
Qed.

Lemma exponent_test b :
  (Z.land b (Z.shiftl (Z.ones 11) 52) =? Z.shiftl (Z.ones 11) 52) = (f64_exponent b =? 2047).
Proof.
  unfold f64_exponent. rewrite land_shifted_mask, Z.land_ones, Z.shiftr_div_pow2 by lia.
  set (X := (b / 2 ^ 52) mod 2 ^ 11). rewrite !Z.shiftl_mul_pow2 by lia.
  change (Z.ones 11) with 2047.
  assert (NZ : 2 ^ 52 <> 0) by (apply Z.pow_nonzero; lia).
  apply eq_true_iff_eq. rewrite !Z.eqb_eq. split; intros E.
  - now apply Z.mul_cancel_r in E.
  - now rewrite E.
Qed.

Lemma f64_is_nan_model b : f64_is_nan b = float_is_nan b.
Proof.
  unfold f64_is_nan, float_is_nan.
  change 9218868437227405312 with (Z.shiftl (Z.ones 11) 52).
  change 4503599627370495 with (Z.ones 52).
  rewrite exponent_test, Z.land_ones by lia. reflexivity.
Qed.

Lemma qnan_is_nan : float_is_nan QNAN = true.
Proof. vm_compute. reflexivity. Qed.

Lemma float_key_eqb_canon x y : float_key_eqb x y = (nancanon_bits x =? nancanon_bits y).
Proof.
  unfold nancanon_bits, float_key_eqb. rewrite !f64_is_nan_model.
  pose proof qnan_is_nan as Q.
  destruct (float_is_nan x) eqn:Nx, (float_is_nan y) eqn:Ny; cbn [andb orb].
  - symmetry. apply Z.eqb_refl.
  - destruct (Z.eqb_spec x y), (Z.eqb_spec QNAN y); subst; congruence.
  - destruct (Z.eqb_spec x y), (Z.eqb_spec x QNAN); subst; congruence.
  - reflexivity.
Qed.

Lemma zs_eqb_list_eqb a b : zs_eqb a b = list_eqb Z.eqb a b.
Proof.
  revert b. induction a as [|x xs IH]; intros [|y ys]; cbn; auto.
  rewrite IH. now destruct (x =? y).
Qed.

(* kt_eqb on tuple and frozenset keys *)
Lemma kt_eqb_tuple c1 c2 : kt_eqb (KT TAG_TUPLE [] c1) (KT TAG_TUPLE [] c2) = leqb kt_eqb c1 c2.
Proof.
  cbn [kt_eqb]. change (TAG_TUPLE =? TAG_TUPLE) with true.
  change (TAG_TUPLE =? TAG_FROZENSET) with false. cbn [zs_eqb andb].
  revert c2. induction c1 as [|x xs IH]; intros [|y ys]; cbn; auto.
Qed.

Lemma kt_eqb_frozenset c1 c2 :
  kt_eqb (KT TAG_FROZENSET [] c1) (KT TAG_FROZENSET [] c2) = fs_eqb kt_eqb c1 c2.
Proof.
  cbn [kt_eqb]. change (TAG_FROZENSET =? TAG_FROZENSET) with true. cbn [zs_eqb andb].
  reflexivity.
Qed.

Lemma forallb_ext' {A} (g h : A -> bool) l : (forall a, g a = h a) -> forallb g l = forallb h l.
Proof. intros E. induction l as [|a l IH]; cbn; auto. now rewrite E, IH. Qed.

Section MapExt.
  Context {A B : Type} (f : A -> B) (e : B -> B -> bool).
  Lemma leqb_map x y : leqb e (map f x) (map f y) = leqb (fun a b => e (f a) (f b)) x y.
  Proof. revert y. induction x as [|a x IH]; intros [|b y]; cbn; auto. now rewrite IH. Qed.

  Lemma existsb_map_l (g : B -> bool) y : existsb g (map f y) = existsb (fun q => g (f q)) y.
  Proof. induction y as [|b y IH]; cbn; auto. now rewrite IH. Qed.

  Lemma forallb_map_l (g : B -> bool) y : forallb g (map f y) = forallb (fun q => g (f q)) y.
  Proof. induction y as [|b y IH]; cbn; auto. now rewrite IH. Qed.

  Lemma fs_eqb_map x y : fs_eqb e (map f x) (map f y) = fs_eqb (fun a b => e (f a) (f b)) x y.
  Proof.
    unfold fs_eqb. rewrite !forallb_map_l. f_equal.
    - apply forallb_ext'. intros a. apply existsb_map_l.
    - apply forallb_ext'. intros b. apply (existsb_map_l (fun p => e p (f b))).
  Qed.
End MapExt.

Section ExtF.
  Context {A : Type} (e1 e2 : A -> A -> bool).
  Definition extP (a : A) : Prop := forall b, e1 a b = e2 a b.

  Lemma leqb_ext_F x : Forall extP x -> forall y, leqb e1 x y = leqb e2 x y.
  Proof.
    induction 1 as [|a x Ha _ IH]; intros [|b y]; cbn; auto. now rewrite Ha, IH.
  Qed.

  Lemma fs_eqb_ext_F x : Forall extP x -> forall y, fs_eqb e1 x y = fs_eqb e2 x y.
  Proof.
    intros H y. rewrite Forall_forall in H. apply eq_true_iff_eq. rewrite !fs_eqb_true.
    split; intros [H1 H2]; split.
    - intros p Hp. destruct (H1 p Hp) as (q & Hq & E). exists q. split; auto. now rewrite <- (H p Hp).
    - intros q Hq. destruct (H2 q Hq) as (p & Hp & E). exists p. split; auto. now rewrite <- (H p Hp).
    - intros p Hp. destruct (H1 p Hp) as (q & Hq & E). exists q. split; auto. now rewrite (H p Hp).
    - intros q Hq. destruct (H2 q Hq) as (p & Hp & E). exists p. split; auto. now rewrite (H p Hp).
  Qed.
End ExtF.

(* The model distinguishes exactly what _PyCode_ConstantKey distinguishes, except that it
   identifies all NaN patterns. *)
Theorem ikey_eqb_pykey : forall a b, ikey_eqb a b = pykey_eqb (nancanon a) (nancanon b).
Proof.
  unfold pykey_eqb.
  induction a as [ |x|x|x|r i|x|x| |l IH|l IH] using iconst_ind';
    intros [ |y|y|y|r' i'|y|y| |l'|l']; try reflexivity.
  - destruct x, y; reflexivity.
  - cbn. now destruct (x =? y).
  - cbn [ikey_eqb nancanon pykey kt_eqb zs_eqb]. rewrite float_key_eqb_canon.
    change (TAG_FLOAT =? TAG_FLOAT) with true. change (TAG_FLOAT =? TAG_FROZENSET) with false.
    now destruct (_ =? _).
  - cbn [ikey_eqb nancanon pykey kt_eqb zs_eqb]. rewrite !float_key_eqb_canon.
    change (TAG_COMPLEX =? TAG_COMPLEX) with true.
    change (TAG_COMPLEX =? TAG_FROZENSET) with false.
    destruct (nancanon_bits r =? nancanon_bits r'), (nancanon_bits i =? nancanon_bits i');
      reflexivity.
  - cbn [ikey_eqb nancanon pykey kt_eqb]. rewrite zs_eqb_list_eqb.
    change (TAG_STR =? TAG_STR) with true. change (TAG_STR =? TAG_FROZENSET) with false.
    cbn [andb]. unfold str_eqb. now rewrite andb_true_r.
  - cbn [ikey_eqb nancanon pykey kt_eqb]. rewrite zs_eqb_list_eqb.
    change (TAG_BYTES =? TAG_BYTES) with true. change (TAG_BYTES =? TAG_FROZENSET) with false.
    cbn [andb]. now rewrite andb_true_r.
  - rewrite ikey_eqb_tuple. cbn [nancanon pykey]. rewrite kt_eqb_tuple, !map_map, leqb_map.
    apply leqb_ext_F. exact IH.
  - rewrite ikey_eqb_frozenset. cbn [nancanon pykey].
    rewrite kt_eqb_frozenset, !map_map, fs_eqb_map.
    apply fs_eqb_ext_F. exact IH.
Qed.

(* The reference partition on floats is equality of patterns, so [nancanon] is needed in
   [ikey_eqb_pykey]: two different NaN patterns are equal for the model and different for
   _PyCode_ConstantKey. *)
Lemma pykey_eqb_float x y : pykey_eqb (IFloat x) (IFloat y) = (x =? y).
Proof.
  unfold pykey_eqb. cbn [pykey kt_eqb zs_eqb].
  change (TAG_FLOAT =? TAG_FLOAT) with true. change (TAG_FLOAT =? TAG_FROZENSET) with false.
  now destruct (x =? y).
Qed.

Lemma ikey_eqb_pykey_needs_canon :
  ikey_eqb (IFloat 9221120237041090560) (IFloat 9221120237041090561) = true
  /\ pykey_eqb (IFloat 9221120237041090560) (IFloat 9221120237041090561) = false.
Proof. split; vm_compute; reflexivity. Qed.

Lemma ikey_eqb_pykey_differ x y :
  ikey_eqb (IFloat x) (IFloat y) <> pykey_eqb (IFloat x) (IFloat y) <->
  float_is_nan x = true /\ float_is_nan y = true /\ x <> y.
Proof.
  rewrite pykey_eqb_float. cbn [ikey_eqb]. unfold float_key_eqb.
  destruct (float_is_nan x), (float_is_nan y), (Z.eqb_spec x y); cbn; intuition congruence.
Qed.

(* without NaNs the model is the reference partition *)
Fixpoint nan_free (c : iconst) : bool :=
  match c with
  | IFloat x => negb (float_is_nan x)
  | IComplex r i => negb (float_is_nan r) && negb (float_is_nan i)
  | ITuple l | IFrozenset l => forallb nan_free l
  | _ => true
  end.

Lemma nancanon_nan_free : forall a, nan_free a = true -> nancanon a = a.
Proof.
  induction a as [ |x|x|x|r i|x|x| |l IH|l IH] using iconst_ind'; cbn [nan_free nancanon];
    intros H; auto.
  - unfold nancanon_bits. rewrite f64_is_nan_model. now destruct (float_is_nan x).
  - unfold nancanon_bits. rewrite !f64_is_nan_model.
    now destruct (float_is_nan r), (float_is_nan i).
  - f_equal. rewrite forallb_forall in H. rewrite Forall_forall in IH.
    rewrite <- (map_id l) at 2. apply map_ext_in. intros a Ha. apply IH; auto.
  - f_equal. rewrite forallb_forall in H. rewrite Forall_forall in IH.
    rewrite <- (map_id l) at 2. apply map_ext_in. intros a Ha. apply IH; auto.
Qed.

Corollary ikey_eqb_pykey_nan_free a b :
  nan_free a = true -> nan_free b = true -> ikey_eqb a b = pykey_eqb a b.
Proof. intros Ha Hb. now rewrite ikey_eqb_pykey, !nancanon_nan_free. Qed.

(* ------------------------------------------------------------------ *)
(* 5. Hashes computed from the key that equality compares               *)

Definition mix (tag v : Z) : Z := tag + 16 * v.
Definition float_hash (x : Z) : Z := if float_is_nan x then 0 else x.
Definition zs_hash (l : list Z) : Z := fold_right (fun x acc => x + 31 * acc) 7 l.
Definition opt_hash {A} (h : A -> Z) (o : option A) : Z :=
  match o with None => 0 | Some x => 1 + 2 * h x end.
Definition bool_hash (b : bool) : Z := if b then 1 else 0.
(* sequences: order matters *)
Definition lhash {A} (h : A -> Z) (l : list A) : Z := fold_right (fun x acc => h x + 31 * acc) 7 l.
(* sets given as listings: commutative and idempotent, so duplicates and order do not matter *)
Definition set_hash {A} (h : A -> Z) (l : list A) : Z := fold_right (fun x acc => Z.max (h x) acc) 0 l.

Fixpoint ihash (c : iconst) : Z :=
  match c with
  | INone => mix 0 0
  | IBool b => mix 1 (bool_hash b)
  | IInt z => mix 2 z
  | IFloat x => mix 3 (float_hash x)
  | IComplex r i => mix 4 (float_hash r + 31 * float_hash i)
  | IStr s => mix 5 (zs_hash s)
  | IBytes b => mix 6 (zs_hash b)
  | IEllipsis => mix 7 0
  | ITuple l => mix 8 (lhash ihash l)
  | IFrozenset l => mix 9 (set_hash ihash l)
  end.

Definition args_hash (a : args) : Z :=
  lhash zs_hash (a_posonly a) + 31 * (lhash zs_hash (a_poskw a) + 31 * (opt_hash zs_hash (a_varpos a)
  + 31 * (lhash zs_hash (a_kwonly a) + 31 * opt_hash zs_hash (a_varkw a)))).
Definition function_hash (f : function) : Z :=
  args_hash (fn_args f) + 31 * (opt_hash zs_hash (fn_doc f) + 31 * opt_hash fntype_id (fn_type f)).
Definition addline_hash (a : addline) : Z :=
  opt_hash (fun z => z) (al_line a) + 31 * zs_hash (al_offs a).

Section DataHash.
  Context {C : Type} (h : C -> Z).
  Definition arg_hash (a : arg_ C) : Z :=
    match a with
    | AInt z => mix 0 z
    | AJump t r => mix 1 (t + 31 * bool_hash r)
    | AName s o => mix 2 (zs_hash s + 31 * opt_hash (fun z => z) o)
    | AVarname s o => mix 3 (zs_hash s + 31 * opt_hash (fun z => z) o)
    | AConst c o => mix 4 (h c + 31 * opt_hash (fun z => z) o)
    | AFreevar s => mix 5 (zs_hash s)
    | ACellvar s o => mix 6 (zs_hash s + 31 * opt_hash (fun z => z) o)
    | ANoArg z => mix 7 z
    end.
  Definition instr_hash (i : instr_ C) : Z :=
    i_name i + 31 * (arg_hash (i_arg i) + 31 * (opt_hash (fun z => z) (i_nargs i)
    + 31 * (opt_hash (fun z => z) (i_line i) + 31 * zs_hash (i_lineoffs i)))).
  Definition cd_hash_with (cd : code_data_ C) : Z :=
    lhash (lhash instr_hash) (cd_blocks cd)
    + 31 * (zs_hash (cd_filename cd) + 31 * (cd_firstline cd + 31 * (zs_hash (cd_name cd)
    + 31 * (cd_stacksize cd + 31 * (opt_hash function_hash (cd_type cd)
    + 31 * (lhash zs_hash (cd_freevars cd) + 31 * (bool_hash (cd_future_annotations cd)
    + 31 * (bool_hash (cd_nested cd) + 31 * (opt_hash addline_hash (cd_addline cd)
    + 31 * lhash arg_hash (cd_addargs cd)))))))))).
End DataHash.

Fixpoint chash (c : const) : Z :=
  match c with
  | KInner i => mix 0 (ihash i)
  | KCode cd => mix 1 (cd_hash_with chash cd)
  end.
Definition cd_hash : code_data -> Z := cd_hash_with chash.

(* [h] is constant on the class of [x] *)
Definition hashP {A} (eqb : A -> A -> bool) (h : A -> Z) (x : A) : Prop :=
  forall y, eqb x y = true -> h x = h y.

Section HashLists.
  Context {A : Type} (eqb : A -> A -> bool) (h : A -> Z).

  Lemma lhash_respects l : Forall (hashP eqb h) l -> hashP (leqb eqb) (lhash h) l.
  Proof.
    unfold hashP. induction 1 as [|x xs Hx _ IH]; intros [|y ys] E; cbn [leqb] in E;
      try discriminate E; auto.
    apply andb_true_iff in E as [E1 E2].
    change (lhash h (x :: xs)) with (h x + 31 * lhash h xs).
    change (lhash h (y :: ys)) with (h y + 31 * lhash h ys).
    now rewrite (Hx _ E1), (IH _ E2).
  Qed.

  Lemma set_hash_cons x xs : set_hash h (x :: xs) = Z.max (h x) (set_hash h xs).
  Proof. reflexivity. Qed.

  Lemma set_hash_nonneg l : 0 <= set_hash h l.
  Proof. induction l as [|x xs IH]; [cbn; lia|]. rewrite set_hash_cons. lia. Qed.

  Lemma set_hash_ge l p : In p l -> h p <= set_hash h l.
  Proof.
    induction l as [|x xs IH]; intros Hp; [destruct Hp|]. rewrite set_hash_cons.
    destruct Hp as [->|Hp]; [lia|]. specialize (IH Hp). lia.
  Qed.

  Lemma set_hash_ub l M : 0 <= M -> (forall p, In p l -> h p <= M) -> set_hash h l <= M.
  Proof.
    intros HM. induction l as [|x xs IH]; intros H; [cbn; lia|]. rewrite set_hash_cons.
    assert (h x <= M) by (apply H; now left).
    assert (set_hash h xs <= M) by (apply IH; intros p Hp; apply H; now right).
    lia.
  Qed.

  Lemma set_hash_respects l : Forall (hashP eqb h) l -> hashP (fs_eqb eqb) (set_hash h) l.
  Proof.
    unfold hashP. intros H l' E. rewrite Forall_forall in H. apply fs_eqb_true in E as [E1 E2].
    apply Z.le_antisymm.
    - apply set_hash_ub; [apply set_hash_nonneg|]. intros p Hp.
      destruct (E1 p Hp) as (q & Hq & Epq). rewrite (H p Hp q Epq). now apply set_hash_ge.
    - apply set_hash_ub; [apply set_hash_nonneg|]. intros q Hq.
      destruct (E2 q Hq) as (p & Hp & Epq). rewrite <- (H p Hp q Epq). now apply set_hash_ge.
  Qed.
End HashLists.

Lemma float_hash_respects x y : float_key_eqb x y = true -> float_hash x = float_hash y.
Proof.
  intros E. apply float_key_eqb_true in E as [[E1 E2]|E]; [|now subst].
  unfold float_hash. now rewrite E1, E2.
Qed.

Theorem ihash_respects : forall a b, ikey_eqb a b = true -> ihash a = ihash b.
Proof.
  induction a as [ |x|x|x|r i|x|x| |l IH|l IH] using iconst_ind';
    intros [ |y|y|y|r' i'|y|y| |l'|l'] E; try discriminate E; try reflexivity.
  - apply (proj1 (ikey_bool_inv x y)) in E. now subst.
  - apply (proj1 (ikey_int_inv x y)) in E. now subst.
  - cbn [ikey_eqb] in E. cbn [ihash]. now rewrite (float_hash_respects _ _ E).
  - apply (proj1 (ikey_complex_inv _ _ _ _)) in E as [E1 E2]. cbn [ihash].
    now rewrite (float_hash_respects _ _ E1), (float_hash_respects _ _ E2).
  - apply (proj1 (ikey_str_inv x y)) in E. now subst.
  - apply (proj1 (ikey_bytes_inv x y)) in E. now subst.
  - rewrite ikey_eqb_tuple in E. cbn [ihash]. f_equal.
    exact (lhash_respects ikey_eqb ihash l IH l' E).
  - rewrite ikey_eqb_frozenset in E. cbn [ihash]. f_equal.
    exact (set_hash_respects ikey_eqb ihash l IH l' E).
Qed.

Section DataHashRespects.
  Context {C : Type} (ceqb : C -> C -> bool) (h : C -> Z).

  Lemma arg_hash_respects a : argP (hashP ceqb h) a -> hashP (arg_eqb ceqb) (arg_hash h) a.
  Proof.
    unfold hashP. destruct a; cbn [argP]; intros H [ | | | | | | | ] E; cbn in E;
      try discriminate E;
      rewrite ?andb_true_iff, ?Z.eqb_eq, ?str_eqb_spec, ?oz_eqb_spec, ?bool_eqb_spec in E;
      cbn [arg_hash]; try (now intuition (subst; auto)).
    destruct E as [-> E]. now rewrite (H _ E).
  Qed.

  Lemma instr_hash_respects i :
    instrP (hashP ceqb h) i -> hashP (instr_eqb ceqb) (instr_hash h) i.
  Proof.
    intros H j E. apply instr_eqb_true in E as (E1 & E2 & E3 & E4 & E5).
    unfold instr_hash. now rewrite E1, E3, E4, E5, (arg_hash_respects _ H _ E2).
  Qed.

  Lemma block_hash_respects b :
    Forall (instrP (hashP ceqb h)) b -> hashP (leqb (instr_eqb ceqb)) (lhash (instr_hash h)) b.
  Proof.
    intros H. apply lhash_respects. eapply Forall_impl; [|exact H]. apply instr_hash_respects.
  Qed.

  Lemma cd_hash_with_respects cd :
    cdP (hashP ceqb h) cd -> hashP (cd_eqb_with ceqb) (cd_hash_with h) cd.
  Proof.
    intros [HB HA] cd' E.
    apply cd_eqb_with_true in E as (E1 & E2 & E3 & E4 & E5 & E6 & E7 & E8 & E9 & E10 & E11).
    unfold cd_hash_with. rewrite E2, E3, E4, E5, E6, E7, E8, E9, E10.
    assert (HB' : Forall (hashP (leqb (instr_eqb ceqb)) (lhash (instr_hash h))) (cd_blocks cd))
      by (eapply Forall_impl; [|exact HB]; apply block_hash_respects).
    assert (HA' : Forall (hashP (arg_eqb ceqb) (arg_hash h)) (cd_addargs cd))
      by (eapply Forall_impl; [|exact HA]; apply arg_hash_respects).
    now rewrite (lhash_respects _ _ _ HB' _ E1), (lhash_respects _ _ _ HA' _ E11).
  Qed.
End DataHashRespects.

Theorem chash_respects : forall a b, key_eqb a b = true -> chash a = chash b.
Proof.
  induction a as [i|cd IH] using const_ind'; intros [j|cd'] E; cbn [key_eqb] in E;
    try discriminate E; cbn [chash]; f_equal.
  - now apply ihash_respects.
  - exact (cd_hash_with_respects key_eqb chash cd IH cd' E).
Qed.

Theorem cd_hash_respects : forall a b, cd_eqb a b = true -> cd_hash a = cd_hash b.
Proof.
  intros a. apply (cd_hash_with_respects key_eqb chash). apply cdP_all. exact chash_respects.
Qed.

(* D7 (NaN constants equal but hashed differently) cannot happen for this hash *)
Corollary chash_nan x y : float_is_nan x = true -> float_is_nan y = true ->
  key_eqb (KInner (IFloat x)) (KInner (IFloat y)) = true
  /\ chash (KInner (IFloat x)) = chash (KInner (IFloat y)).
Proof.
  intros Nx Ny. assert (E : key_eqb (KInner (IFloat x)) (KInner (IFloat y)) = true).
  { cbn [key_eqb ikey_eqb]. apply float_key_eqb_true. auto. }
  split; [exact E|]. now apply chash_respects.
Qed.

(* ------------------------------------------------------------------ *)
Print Assumptions iconst_ind'.
Print Assumptions const_ind'.
Print Assumptions ikey_eqb_refl.
Print Assumptions ikey_eqb_sym.
Print Assumptions ikey_eqb_trans.
Print Assumptions key_eqb_refl.
Print Assumptions key_eqb_sym.
Print Assumptions key_eqb_trans.
Print Assumptions cd_eqb_refl.
Print Assumptions cd_eqb_sym.
Print Assumptions cd_eqb_trans.
Print Assumptions f64_is_nan_model.
Print Assumptions ikey_eqb_pykey.
Print Assumptions ikey_eqb_pykey_nan_free.
Print Assumptions ikey_eqb_pykey_differ.
Print Assumptions ikey_pos_neg_zero.
Print Assumptions ikey_tuple_inv.
Print Assumptions ikey_tuple_diff.
Print Assumptions ikey_frozenset_inv.
Print Assumptions ikey_complex_inv.
Print Assumptions ikey_eqb_tag.
Print Assumptions ihash_respects.
Print Assumptions chash_respects.
Print Assumptions cd_hash_respects.
