(* Equality of constants (Model/Consts.v): equivalence relations, agreement with the reference
   partition of Spec/ConstKey.v, discrimination lemmas and hashes that respect equality. *)
From Coq Require Import ZArith List Bool Lia ZifyBool.
From PCD Require Import Base.PyBase Base.Cfg Model.Flags Model.Args Model.Data Model.Consts
  Spec.ConstKey.
Import ListNotations. Open Scope Z_scope.

(* ------------------------------------------------------------------ *)
(* Induction principles for the nested inductives                      *)

Section IconstInd.
  Variable P : iconst -> Prop.
  Hypothesis HNone : P INone.
  Hypothesis HBool : forall b, P (IBool b).
  Hypothesis HInt : forall z, P (IInt z).
  Hypothesis HFloat : forall f, P (IFloat f).
  Hypothesis HComplex : forall r i, P (IComplex r i).
  Hypothesis HStr : forall s, P (IStr s).
  Hypothesis HBytes : forall b, P (IBytes b).
  Hypothesis HEllipsis : P IEllipsis.
  Hypothesis HTuple : forall l, Forall P l -> P (ITuple l).
  Hypothesis HFrozenset : forall l, Forall P l -> P (IFrozenset l).

  Fixpoint iconst_ind' (c : iconst) : P c :=
    match c as c0 return P c0 with
    | INone => HNone
    | IBool b => HBool b
    | IInt z => HInt z
    | IFloat f => HFloat f
    | IComplex r i => HComplex r i
    | IStr s => HStr s
    | IBytes b => HBytes b
    | IEllipsis => HEllipsis
    | ITuple l =>
        HTuple l ((fix go (l : list iconst) : Forall P l :=
                     match l with
                     | [] => Forall_nil P
                     | x :: xs => Forall_cons x (iconst_ind' x) (go xs)
                     end) l)
    | IFrozenset l =>
        HFrozenset l ((fix go (l : list iconst) : Forall P l :=
                         match l with
                         | [] => Forall_nil P
                         | x :: xs => Forall_cons x (iconst_ind' x) (go xs)
                         end) l)
    end.
End IconstInd.

(* what a predicate on constants says about an operand / a CodeData *)
Definition argP {C} (P : C -> Prop) (a : arg_ C) : Prop :=
  match a with AConst c _ => P c | _ => True end.
Definition instrP {C} (P : C -> Prop) (i : instr_ C) : Prop := argP P (i_arg i).
Definition cdP {C} (P : C -> Prop) (cd : code_data_ C) : Prop :=
  Forall (Forall (instrP P)) (cd_blocks cd) /\ Forall (argP P) (cd_addargs cd).

Section ConstInd.
  Variable P : const -> Prop.
  Hypothesis HInner : forall i, P (KInner i).
  Hypothesis HCode : forall cd, cdP P cd -> P (KCode cd).

  Fixpoint const_ind' (c : const) : P c :=
    match c as c0 return P c0 with
    | KInner i => HInner i
    | KCode cd =>
        HCode cd
          (match cd as cd0 return cdP P cd0 with
           | mkCD bl fn fl nm ss ty fv fa ne al aa =>
               let argF := fun a : arg_ const =>
                 match a as a0 return argP P a0 with
                 | AConst c _ => const_ind' c
                 | _ => I
                 end in
               conj
                 ((fix goB (bs : list (list (instr_ const))) : Forall (Forall (instrP P)) bs :=
                     match bs with
                     | [] => Forall_nil _
                     | b :: bs' =>
                         Forall_cons b
                           ((fix goI (is : list (instr_ const)) : Forall (instrP P) is :=
                               match is with
                               | [] => Forall_nil _
                               | i :: is' =>
                                   Forall_cons i
                                     (match i as i0 return instrP P i0 with
                                      | mkInstr n a na ln lo => argF a
                                      end) (goI is')
                               end) b) (goB bs')
                     end) bl)
                 ((fix goA (l : list (arg_ const)) : Forall (argP P) l :=
                     match l with
                     | [] => Forall_nil _
                     | a :: l' => Forall_cons a (argF a) (goA l')
                     end) aa)
           end)
    end.
End ConstInd.

(* a predicate that holds everywhere holds inside every CodeData *)
Lemma argP_all {C} (P : C -> Prop) : (forall c, P c) -> forall a, argP P a.
Proof. intros H [ | | | | | | | ]; cbn; auto. Qed.

Lemma cdP_all {C} (P : C -> Prop) : (forall c, P c) -> forall cd, cdP P cd.
Proof.
  intros H cd. split.
  - apply Forall_forall. intros b _. apply Forall_forall. intros i _. apply argP_all, H.
  - apply Forall_forall. intros a _. apply argP_all, H.
Qed.

(* ------------------------------------------------------------------ *)
(* Ordered and set-wise comparison of listings, relative to Forall      *)

(* the shape of the frozenset case of ikey_eqb *)
Definition fs_eqb {A} (eqb : A -> A -> bool) (x y : list A) : bool :=
  forallb (fun p => existsb (fun q => eqb p q) y) x
  && forallb (fun q => existsb (fun p => eqb p q) x) y.

Lemma leqb_list_eqb {A} (eqb : A -> A -> bool) a b : leqb eqb a b = list_eqb eqb a b.
Proof. revert b; induction a as [|x xs IH]; intros [|y ys]; cbn; auto. now rewrite IH. Qed.

Lemma fs_eqb_true {A} (eqb : A -> A -> bool) x y :
  fs_eqb eqb x y = true <->
  (forall p, In p x -> exists q, In q y /\ eqb p q = true) /\
  (forall q, In q y -> exists p, In p x /\ eqb p q = true).
Proof.
  unfold fs_eqb. rewrite andb_true_iff, !forallb_forall.
  split; intros [H1 H2]; split; intros e He.
  - apply H1 in He. now apply existsb_exists in He.
  - apply H2 in He. now apply existsb_exists in He.
  - apply existsb_exists. now apply H1.
  - apply existsb_exists. now apply H2.
Qed.

Section RelLists.
  Context {A : Type} (eqb : A -> A -> bool).
  Definition reflP (x : A) : Prop := eqb x x = true.
  Definition symP (x : A) : Prop := forall y, eqb x y = true -> eqb y x = true.
  Definition transP (x : A) : Prop :=
    forall y z, eqb x y = true -> eqb y z = true -> eqb x z = true.

  Lemma leqb_refl_F l : Forall reflP l -> leqb eqb l l = true.
  Proof. induction 1 as [|x xs Hx _ IH]; cbn; auto. now rewrite Hx, IH. Qed.

  Lemma leqb_sym_F l : Forall symP l -> forall l', leqb eqb l l' = true -> leqb eqb l' l = true.
  Proof.
    induction 1 as [|x xs Hx _ IH]; intros [|y ys] E; cbn in *; try discriminate; auto.
    apply andb_true_iff in E as [E1 E2]. now rewrite (Hx _ E1), (IH _ E2).
  Qed.

  Lemma leqb_trans_F l : Forall transP l ->
    forall l' l'', leqb eqb l l' = true -> leqb eqb l' l'' = true -> leqb eqb l l'' = true.
  Proof.
    induction 1 as [|x xs Hx _ IH]; intros [|y ys] [|z zs] E F; cbn in *; try discriminate; auto.
    apply andb_true_iff in E as [E1 E2]. apply andb_true_iff in F as [F1 F2].
    now rewrite (Hx _ _ E1 F1), (IH _ _ E2 F2).
  Qed.

  Lemma fs_eqb_refl_F l : Forall reflP l -> fs_eqb eqb l l = true.
  Proof.
    intros H. rewrite Forall_forall in H. apply fs_eqb_true.
    split; intros p Hp; exists p; split; auto; now apply H.
  Qed.

  Lemma fs_eqb_sym_F l : Forall symP l -> forall l', fs_eqb eqb l l' = true -> fs_eqb eqb l' l = true.
  Proof.
    intros H l' E. rewrite Forall_forall in H. apply fs_eqb_true in E as [E1 E2].
    apply fs_eqb_true. split.
    - intros q Hq. destruct (E2 q Hq) as (p & Hp & Hpq). exists p. split; auto. now apply H.
    - intros p Hp. destruct (E1 p Hp) as (q & Hq & Hpq). exists q. split; auto. now apply H.
  Qed.

  Lemma fs_eqb_trans_F l : Forall transP l ->
    forall l' l'', fs_eqb eqb l l' = true -> fs_eqb eqb l' l'' = true -> fs_eqb eqb l l'' = true.
  Proof.
    intros H l' l'' E F. rewrite Forall_forall in H.
    apply fs_eqb_true in E as [E1 E2]. apply fs_eqb_true in F as [F1 F2].
    apply fs_eqb_true. split.
    - intros p Hp. destruct (E1 p Hp) as (q & Hq & Hpq). destruct (F1 q Hq) as (r & Hr & Hqr).
      exists r. split; auto. exact (H p Hp q r Hpq Hqr).
    - intros r Hr. destruct (F2 r Hr) as (q & Hq & Hqr). destruct (E2 q Hq) as (p & Hp & Hpq).
      exists p. split; auto. exact (H p Hp q r Hpq Hqr).
  Qed.
End RelLists.

(* ------------------------------------------------------------------ *)
(* Floats                                                               *)

Lemma float_key_eqb_refl x : float_key_eqb x x = true.
Proof. unfold float_key_eqb. rewrite Z.eqb_refl. apply orb_true_r. Qed.

Lemma float_key_eqb_sym x y : float_key_eqb x y = float_key_eqb y x.
Proof. unfold float_key_eqb. now rewrite (andb_comm (float_is_nan x)), (Z.eqb_sym x y). Qed.

Lemma float_key_eqb_trans x y z :
  float_key_eqb x y = true -> float_key_eqb y z = true -> float_key_eqb x z = true.
Proof.
  unfold float_key_eqb. generalize float_is_nan. intros nan E F.
  apply orb_true_iff in E as [E|E]; [|apply Z.eqb_eq in E; subst; exact F].
  apply orb_true_iff in F as [F|F]; [|apply Z.eqb_eq in F; subst; now rewrite E].
  apply andb_true_iff in E as [E1 _]. apply andb_true_iff in F as [_ F2].
  now rewrite E1, F2.
Qed.

(* ------------------------------------------------------------------ *)
(* 1. ikey_eqb is an equivalence relation                               *)

(* the local fixes of the model are leqb and fs_eqb *)
Lemma ikey_eqb_tuple x y : ikey_eqb (ITuple x) (ITuple y) = leqb ikey_eqb x y.
Proof. cbn [ikey_eqb]. revert y. induction x as [|p ps IH]; intros [|q qs]; cbn; auto. Qed.

Lemma ikey_eqb_frozenset x y : ikey_eqb (IFrozenset x) (IFrozenset y) = fs_eqb ikey_eqb x y.
Proof.
  cbn [ikey_eqb]. unfold fs_eqb. f_equal.
  - induction x as [|p ps IH]; cbn; auto.
  - induction y as [|q qs IH]; cbn; auto.
Qed.

Lemma zlist_eqb_spec a b : list_eqb Z.eqb a b = true <-> a = b.
Proof. apply list_eqb_spec. intros; apply Z.eqb_eq. Qed.

Lemma zlist_eqb_refl a : list_eqb Z.eqb a a = true.
Proof. now apply zlist_eqb_spec. Qed.

Lemma str_eqb_refl a : str_eqb a a = true.
Proof. now apply str_eqb_spec. Qed.

Theorem ikey_eqb_refl : forall a, ikey_eqb a a = true.
Proof.
  induction a as [ |b|z|f|r i|s|b| |l IH|l IH] using iconst_ind'; cbn [ikey_eqb]; auto.
  - now destruct b.
  - apply Z.eqb_refl.
  - apply float_key_eqb_refl.
  - now rewrite !float_key_eqb_refl.
  - apply str_eqb_refl.
  - apply zlist_eqb_refl.
  - rewrite ikey_eqb_tuple. now apply leqb_refl_F.
  - rewrite ikey_eqb_frozenset. now apply fs_eqb_refl_F.
Qed.

Theorem ikey_eqb_sym : forall a b, ikey_eqb a b = true -> ikey_eqb b a = true.
Proof.
  induction a as [ |b|z|f|r i|s|b| |l IH|l IH] using iconst_ind';
    intros [ |b'|z'|f'|r' i'|s'|b'| |l'|l'] E; try discriminate E; auto.
  - cbn in *. destruct b, b'; auto.
  - cbn in *. now rewrite Z.eqb_sym.
  - cbn [ikey_eqb] in *. now rewrite float_key_eqb_sym.
  - cbn [ikey_eqb] in *. now rewrite (float_key_eqb_sym r'), (float_key_eqb_sym i').
  - cbn [ikey_eqb] in *. apply str_eqb_spec in E. subst. apply str_eqb_refl.
  - cbn [ikey_eqb] in *. apply zlist_eqb_spec in E. subst. apply zlist_eqb_refl.
  - rewrite ikey_eqb_tuple in *. now apply leqb_sym_F.
  - rewrite ikey_eqb_frozenset in *. now apply fs_eqb_sym_F.
Qed.

Theorem ikey_eqb_trans : forall a b c,
  ikey_eqb a b = true -> ikey_eqb b c = true -> ikey_eqb a c = true.
Proof.
  induction a as [ |b|z|f|r i|s|b| |l IH|l IH] using iconst_ind';
    intros [ |b'|z'|f'|r' i'|s'|b'| |l'|l'] [ |b''|z''|f''|r'' i''|s''|b''| |l''|l''] E F;
    try discriminate E; try discriminate F; auto.
  - cbn in *. destruct b, b', b''; auto.
  - cbn in *. lia.
  - cbn [ikey_eqb] in *. eapply float_key_eqb_trans; eauto.
  - cbn [ikey_eqb] in *. apply andb_true_iff in E as [E1 E2]. apply andb_true_iff in F as [F1 F2].
    rewrite (float_key_eqb_trans _ _ _ E1 F1), (float_key_eqb_trans _ _ _ E2 F2). reflexivity.
  - cbn [ikey_eqb] in *. apply str_eqb_spec in E. now subst.
  - cbn [ikey_eqb] in *. apply zlist_eqb_spec in E. now subst.
  - rewrite ikey_eqb_tuple in *. eapply leqb_trans_F; eauto.
  - rewrite ikey_eqb_frozenset in *. eapply fs_eqb_trans_F; eauto.
Qed.

Corollary ikey_eqb_sym_eq a b : ikey_eqb a b = ikey_eqb b a.
Proof. apply eq_true_iff_eq. split; apply ikey_eqb_sym. Qed.
