(* C06: normalize - idempotent, a congruence for data equality, stable under JSON round trips and
   under any history of {JSON, normalize}; and canonical: the normal form of decoded data is a
   function of CPython's reading of the code (Spec/Dis.v). *)
From Coq Require Import ZArith List Bool Lia ZifyBool Sorted.
From PCD Require Import Base.PyBase Base.Cfg Model.Flags Model.Args Model.Data Model.Consts
  Model.LineTable Model.Blocks Model.CodeData Model.Json Spec.Lnotab Spec.Dis Model.ViewSer
  Proofs.C02_Statements Proofs.C07_Statements Proofs.C06_Statements
  Proofs.ConstsProofs Proofs.BlocksPartition Proofs.DecodeView.
Import ListNotations. Open Scope Z_scope. Open Scope list_scope.
Ltac Zify.zify_post_hook ::= Z.to_euclidean_division_equations.

(* ------------------------------------------------------------------ *)
(** * 1. normalize is idempotent *)

Section Idem.
  Context {C : Type} (f : C -> C).
  Let P (k : C) : Prop := f (f k) = f k.

  Lemma map_arg_norm_idem a : argP P a -> map_arg_norm f (map_arg_norm f a) = map_arg_norm f a.
  Proof. destruct a; cbn; intros H; try reflexivity. now rewrite H. Qed.

  Lemma map_instr_norm_idem i :
    instrP P i -> map_instr_norm f (map_instr_norm f i) = map_instr_norm f i.
  Proof.
    intros H. unfold map_instr_norm. cbn [i_name i_arg i_line]. now rewrite map_arg_norm_idem.
  Qed.

  Lemma map_cd_norm_idem d : cdP P d -> map_cd_norm f (map_cd_norm f d) = map_cd_norm f d.
  Proof.
    intros [HB _]. unfold map_cd_norm. cbn. f_equal.
    rewrite map_map. apply map_ext_in. intros b Hb.
    rewrite Forall_forall in HB. specialize (HB b Hb). rewrite Forall_forall in HB.
    rewrite map_map. apply map_ext_in. intros i Hi. apply map_instr_norm_idem. now apply HB.
  Qed.
End Idem.

Lemma normalize_const_idem : forall k, normalize_const (normalize_const k) = normalize_const k.
Proof.
  induction k as [i|cd IH] using const_ind'; [reflexivity|].
  cbn [normalize_const]. f_equal. now apply map_cd_norm_idem.
Qed.

Lemma nz_idempotent : S_nz_idempotent.
Proof.
  intros d. unfold normalize. apply map_cd_norm_idem. apply cdP_all. exact normalize_const_idem.
Qed.

(* ------------------------------------------------------------------ *)
(** * 2. normalize respects equality of data *)

Lemma leqb_map_F {A} (e : A -> A -> bool) (g : A -> A) l :
  Forall (fun a => forall b, e a b = true -> e (g a) (g b) = true) l ->
  forall l', leqb e l l' = true -> leqb e (map g l) (map g l') = true.
Proof.
  induction 1 as [|x xs Hx _ IH]; intros [|y ys] E; cbn in *; try discriminate; auto.
  apply andb_true_iff in E as [E1 E2]. now rewrite (Hx _ E1), (IH _ E2).
Qed.

Section Congr.
  Context {C : Type} (ceqb : C -> C -> bool) (f : C -> C).
  Let P (a : C) : Prop := forall b, ceqb a b = true -> ceqb (f a) (f b) = true.

  Lemma map_arg_norm_congr a : argP P a ->
    forall b, arg_eqb ceqb a b = true -> arg_eqb ceqb (map_arg_norm f a) (map_arg_norm f b) = true.
  Proof.
    destruct a; cbn [argP]; intros H [ | | | | | | | ] E; cbn in E |- *; try discriminate E;
      rewrite ?andb_true_iff, ?Z.eqb_eq, ?str_eqb_spec, ?oz_eqb_spec, ?bool_eqb_spec in *;
      intuition (subst; auto).
  Qed.

  Lemma map_instr_norm_congr i : instrP P i ->
    forall j, instr_eqb ceqb i j = true ->
              instr_eqb ceqb (map_instr_norm f i) (map_instr_norm f j) = true.
  Proof.
    intros H j E. apply instr_eqb_true in E as (E1 & E2 & E3 & E4 & E5).
    apply instr_eqb_true. cbn [map_instr_norm i_name i_arg i_nargs i_line i_lineoffs].
    repeat split; auto. now apply map_arg_norm_congr.
  Qed.

  Lemma map_cd_norm_congr d : cdP P d ->
    forall d', cd_eqb_with ceqb d d' = true ->
               cd_eqb_with ceqb (map_cd_norm f d) (map_cd_norm f d') = true.
  Proof.
    intros [HB _] d' E.
    apply cd_eqb_with_true in E as (E1 & E2 & E3 & E4 & E5 & E6 & E7 & E8 & E9 & E10 & E11).
    apply cd_eqb_with_true. unfold map_cd_norm. cbn. repeat split; auto.
    revert E1. apply leqb_map_F. eapply Forall_impl; [|exact HB].
    intros b Hb. apply leqb_map_F. eapply Forall_impl; [|exact Hb]. apply map_instr_norm_congr.
  Qed.
End Congr.

Lemma normalize_const_congr : forall a b,
  key_eqb a b = true -> key_eqb (normalize_const a) (normalize_const b) = true.
Proof.
  induction a as [i|cd IH] using const_ind'; intros [j|cd'] E; cbn [key_eqb] in E;
    try discriminate E.
  - exact E.
  - cbn [normalize_const key_eqb]. now apply map_cd_norm_congr.
Qed.

Lemma nz_congruence : S_nz_congruence.
Proof.
  intros a b E. unfold normalize, cd_eqb. apply map_cd_norm_congr; [|exact E].
  apply cdP_all. exact normalize_const_congr.
Qed.

(* ------------------------------------------------------------------ *)
(** * 3. normalize keeps the JSON premises *)

Lemma small_0 : small 0 = true.
Proof. reflexivity. Qed.

Section WfNorm.
  Context {C : Type} (wfc : C -> bool) (f : C -> C).
  Let P (k : C) : Prop := wfc k = true -> wfc (f k) = true.

  Lemma wfj_arg_norm a : argP P a -> wfj_arg wfc a = true -> wfj_arg wfc (map_arg_norm f a) = true.
  Proof.
    destruct a; cbn [argP wfj_arg map_arg_norm small_opt]; intros H E; auto.
    apply andb_true_iff in E as [E _]. rewrite (H E). reflexivity.
  Qed.

  Lemma wfj_instr_norm i : instrP P i ->
    wfj_instr wfc i = true -> wfj_instr wfc (map_instr_norm f i) = true.
  Proof.
    intros H E. unfold wfj_instr in *. cbn [map_instr_norm i_arg i_nargs i_line i_lineoffs].
    apply andb_true_iff in E as [E _]. apply andb_true_iff in E as [E E3].
    apply andb_true_iff in E as [E1 _].
    rewrite (wfj_arg_norm _ H E1), E3. reflexivity.
  Qed.

  Lemma wfj_cd_norm d : cdP P d ->
    wfj_cd_with wfc d = true -> wfj_cd_with wfc (map_cd_norm f d) = true.
  Proof.
    intros [HB _] E. unfold wfj_cd_with in *.
    cbn [map_cd_norm cd_blocks cd_firstline cd_stacksize cd_addline cd_addargs forallb].
    apply andb_true_iff in E as [E _]. apply andb_true_iff in E as [E _].
    apply andb_true_iff in E as [E E3]. apply andb_true_iff in E as [E1 E2].
    rewrite E2, E3, !andb_true_r.
    rewrite forallb_forall in *. intros b' Hb'. apply in_map_iff in Hb' as [b [<- Hb]].
    rewrite Forall_forall in HB. specialize (HB b Hb). specialize (E1 b Hb).
    rewrite forallb_forall in *. intros i' Hi'. apply in_map_iff in Hi' as [i [<- Hi]].
    rewrite Forall_forall in HB. apply wfj_instr_norm; auto.
  Qed.
End WfNorm.

Lemma wfj_const_norm : forall k, wfj_const k = true -> wfj_const (normalize_const k) = true.
Proof.
  induction k as [i|cd IH] using const_ind'; intros E; [exact E|].
  cbn [normalize_const wfj_const] in *. now apply wfj_cd_norm.
Qed.

Lemma nz_wfj : S_nz_wfj.
Proof.
  intros d E. unfold normalize, wfj_cd in *. apply wfj_cd_norm; [|exact E].
  apply cdP_all. exact wfj_const_norm.
Qed.

(* ------------------------------------------------------------------ *)
(** * 4. JSON round trips and histories *)

(* the JSON premises only look at integer fields, which data equality compares exactly *)
Lemma forallb_leqb_F {A} (e : A -> A -> bool) (w : A -> bool) l :
  Forall (fun a => forall b, e a b = true -> w a = true -> w b = true) l ->
  forall l', leqb e l l' = true -> forallb w l = true -> forallb w l' = true.
Proof.
  induction 1 as [|x xs Hx _ IH]; intros [|y ys] E W; cbn in *; try discriminate; auto.
  apply andb_true_iff in E as [E1 E2]. apply andb_true_iff in W as [W1 W2].
  now rewrite (Hx _ E1 W1), (IH _ E2 W2).
Qed.

Section WfEq.
  Context {C : Type} (ceqb : C -> C -> bool) (wfc : C -> bool).
  Let P (a : C) : Prop := forall b, ceqb a b = true -> wfc a = true -> wfc b = true.

  Lemma wfj_arg_eqb a : argP P a ->
    forall b, arg_eqb ceqb a b = true -> wfj_arg wfc a = true -> wfj_arg wfc b = true.
  Proof.
    destruct a; cbn [argP]; intros H [ | | | | | | | ] E W; cbn in E, W |- *; try discriminate E;
      rewrite ?andb_true_iff, ?Z.eqb_eq, ?str_eqb_spec, ?oz_eqb_spec, ?bool_eqb_spec in *;
      intuition (subst; eauto).
  Qed.

  Lemma wfj_addarg_eqb a : argP P a ->
    forall b, arg_eqb ceqb a b = true -> wfj_addarg wfc a = true -> wfj_addarg wfc b = true.
  Proof.
    intros H b E W. unfold wfj_addarg in *. apply andb_true_iff in W as [W1 W2].
    rewrite (wfj_arg_eqb a H b E W1). destruct a, b; cbn in E, W2 |- *; congruence.
  Qed.

  Lemma wfj_instr_eqb i : instrP P i ->
    forall j, instr_eqb ceqb i j = true -> wfj_instr wfc i = true -> wfj_instr wfc j = true.
  Proof.
    intros H j E W. apply instr_eqb_true in E as (E1 & E2 & E3 & E4 & E5).
    unfold wfj_instr in *. rewrite <- E3, <- E4, <- E5.
    apply andb_true_iff in W as [W W4]. apply andb_true_iff in W as [W W3].
    apply andb_true_iff in W as [W1 W2].
    rewrite (wfj_arg_eqb _ H _ E2 W1), W2, W3, W4. reflexivity.
  Qed.

  Lemma wfj_cd_eqb d : cdP P d ->
    forall d', cd_eqb_with ceqb d d' = true -> wfj_cd_with wfc d = true -> wfj_cd_with wfc d' = true.
  Proof.
    intros [HB HA] d' E W.
    apply cd_eqb_with_true in E as (E1 & E2 & E3 & E4 & E5 & E6 & E7 & E8 & E9 & E10 & E11).
    unfold wfj_cd_with in *. rewrite <- E3, <- E5, <- E10.
    apply andb_true_iff in W as [W W5]. apply andb_true_iff in W as [W W4].
    apply andb_true_iff in W as [W W3]. apply andb_true_iff in W as [W1 W2].
    rewrite W2, W3, W4, !andb_true_r. apply andb_true_iff. split.
    - revert E1 W1. apply forallb_leqb_F. eapply Forall_impl; [|exact HB].
      intros b Hb. apply forallb_leqb_F. eapply Forall_impl; [|exact Hb]. apply wfj_instr_eqb.
    - revert E11 W5. apply forallb_leqb_F. eapply Forall_impl; [|exact HA]. apply wfj_addarg_eqb.
  Qed.
End WfEq.

Lemma wfj_const_eqb : forall a b, key_eqb a b = true -> wfj_const a = true -> wfj_const b = true.
Proof.
  induction a as [i|cd IH] using const_ind'; intros [j|cd'] E W; cbn [key_eqb] in E;
    try discriminate E; [reflexivity|].
  cbn [wfj_const] in *. exact (wfj_cd_eqb key_eqb wfj_const cd IH cd' E W).
Qed.

Lemma wfj_cd_eqb' a b : cd_eqb a b = true -> wfj_cd a = true -> wfj_cd b = true.
Proof.
  apply (wfj_cd_eqb key_eqb wfj_const). apply cdP_all. exact wfj_const_eqb.
Qed.

Lemma nz_json_stable_from : S_json_roundtrip -> S_nz_json_stable.
Proof.
  intros RT d W. destruct (RT d W) as [d' [E1 E2]]. exists d'. split; [exact E1|].
  apply nz_congruence. now apply cd_eqb_sym.
Qed.

Lemma history_stable_from : S_json_roundtrip -> S_history_stable.
Proof.
  intros RT ops.
  assert (G : forall cur d0, wfj_cd cur = true -> cd_eqb (normalize cur) (normalize d0) = true ->
              exists d', run6 ops cur = OK d' /\ cd_eqb (normalize d') (normalize d0) = true).
  { induction ops as [|o r IH]; intros cur d0 W E.
    - exists cur. split; [reflexivity|exact E].
    - cbn [run6]. destruct o; cbn [apply6].
      + destruct (RT cur W) as [d' [E1 E2]]. rewrite E1. apply IH.
        * exact (wfj_cd_eqb' _ _ E2 W).
        * eapply cd_eqb_trans; [|exact E]. apply nz_congruence. now apply cd_eqb_sym.
      + apply IH.
        * now apply nz_wfj.
        * now rewrite nz_idempotent. }
  intros d W. apply G; [exact W|apply cd_eqb_refl].
Qed.

(* ------------------------------------------------------------------ *)
(** * 5. Rebuilding the normalized blocks from the flat view *)

Section Core.
  Context {K L : Type} (f : K -> L).

  Definition nonempty_blocks (B : list (list (instr_ K))) : Prop := Forall (fun b => b <> []) B.

  (* all blocks non-empty, every jump designates an existing block, every later block is targeted *)
  Definition well_partitioned (B : list (list (instr_ K))) : Prop :=
    nonempty_blocks B /\
    (forall i t rel, In i (concat B) -> i_arg i = AJump t rel -> 0 <= t < zlen B) /\
    (forall k, 0 < k < zlen B -> exists i rel, In i (concat B) /\ i_arg i = AJump k rel).

  Lemma bfi_length (B : list (list (instr_ K))) : forall i, length (block_first_indices B i) = length B.
  Proof. induction B as [|b r IH]; intros i; cbn; auto. Qed.

  Lemma bfi_lower (B : list (list (instr_ K))) : forall i j, In j (block_first_indices B i) -> i <= j.
  Proof.
    induction B as [|b r IH]; intros i j H; cbn [block_first_indices] in H; [destruct H|].
    destruct H as [H|H]; [lia|]. apply IH in H. unfold zlen in H. lia.
  Qed.

  Lemma zlen_pos {A} (b : list A) : b <> [] -> 0 < zlen b.
  Proof. destruct b; [congruence|]. unfold zlen. cbn [length]. lia. Qed.

  Lemma zlen_map {A B'} (h : A -> B') l : zlen (map h l) = zlen l.
  Proof. unfold zlen. now rewrite map_length. Qed.

  Lemma bfi_incr (B : list (list (instr_ K))) : nonempty_blocks B ->
    forall i, incr (block_first_indices B i).
  Proof.
    induction 1 as [|b r Hb _ IH]; intros i; cbn [block_first_indices]; [apply incr_nil|].
    apply incr_cons. split; [|apply IH].
    intros y Hy. apply bfi_lower in Hy. pose proof (zlen_pos b Hb). lia.
  Qed.

  (* the instruction cut_blocks emits for a view entry *)
  Definition ins_of (T : list Z) (x : vinstr L) : instr_ L :=
    mkInstr (v_op x) (view_arg T x) None (v_line x) [].
  Definition flush (cur : list (instr_ L)) : list (list (instr_ L)) :=
    match cur with [] => [] | _ => [rev cur] end.

  Lemma flush_nonempty cur : cur <> [] -> flush cur = [rev cur].
  Proof. destruct cur; [congruence|reflexivity]. Qed.

  Lemma cut_run T : forall (v rest : list (vinstr L)) i cur,
    cur <> [] ->
    (forall j, i <= j < i + zlen v -> zmem j T = false) ->
    cut_blocks T (v ++ rest) i cur = cut_blocks T rest (i + zlen v) (rev (map (ins_of T) v) ++ cur).
  Proof.
    induction v as [|x v IH]; intros rest i cur Hc H.
    - cbn [app map rev]. unfold zlen. cbn [length]. now rewrite Z.add_0_r.
    - assert (Zl : zlen (x :: v) = zlen v + 1) by (unfold zlen; cbn [length]; lia).
      assert (Zn : 0 <= zlen v) by (unfold zlen; lia).
      cbn [app cut_blocks]. rewrite (H i) by lia. cbn [andb].
      rewrite IH.
      + fold (ins_of T x). cbn [map rev]. rewrite <- app_assoc. cbn [app]. f_equal. lia.
      + discriminate.
      + intros j Hj. apply H. lia.
  Qed.

  Lemma cut_all T (g : instr_ K -> vinstr L) : forall (B : list (list (instr_ K))) i0 cur,
    nonempty_blocks B ->
    (forall j, i0 <= j < i0 + zlen (concat B) ->
               (zmem j T = true <-> In j (block_first_indices B i0))) ->
    cut_blocks T (map g (concat B)) i0 cur
    = flush cur ++ map (map (fun i => ins_of T (g i))) B.
  Proof.
    induction B as [|b r IH]; intros i0 cur Hne H.
    - cbn [concat map cut_blocks]. unfold flush. destruct cur; reflexivity.
    - inversion Hne as [|? ? Hb Hr]; subst. destruct b as [|x b']; [congruence|].
      assert (Zb : zlen (x :: b') = zlen b' + 1) by (unfold zlen; cbn [length]; lia).
      assert (Zc : zlen (concat ((x :: b') :: r)) = zlen b' + 1 + zlen (concat r)).
      { unfold zlen. cbn [concat]. rewrite app_length. cbn [length]. lia. }
      assert (Zn : 0 <= zlen b' /\ 0 <= zlen (concat r)) by (unfold zlen; lia).
      cbn [concat app map]. rewrite map_app. cbn [cut_blocks].
      assert (H0 : zmem i0 T = true).
      { apply H; [lia|]. cbn [block_first_indices]. now left. }
      rewrite H0. cbn [andb].
      assert (Hrun : cut_blocks T (map g b' ++ map g (concat r)) (i0 + 1)
                       [mkInstr (v_op (g x)) (view_arg T (g x)) None (v_line (g x)) []]
                     = [map (fun i => ins_of T (g i)) (x :: b')] ++ map (map (fun i => ins_of T (g i))) r).
      { rewrite cut_run.
        2: discriminate.
        2:{ intros j Hj. rewrite zlen_map in Hj.
            apply not_true_iff_false. intros X. apply H in X; [|lia].
            cbn [block_first_indices] in X. destruct X as [X|X]; [lia|].
            apply bfi_lower in X. lia. }
        rewrite zlen_map. replace (i0 + 1 + zlen b') with (i0 + zlen (x :: b')) by lia.
        rewrite IH.
        - rewrite flush_nonempty by (intros E; apply app_eq_nil in E as [_ E]; discriminate E).
          rewrite rev_app_distr, rev_involutive. cbn [rev app map]. rewrite map_map. reflexivity.
        - exact Hr.
        - intros j Hj. rewrite (H j) by lia. cbn [block_first_indices].
          split; [intros [X|X]; [lia|exact X] | intros X; now right]. }
      destruct cur as [|c0 cur'].
      + cbn [negb andb]. rewrite Hrun. reflexivity.
      + cbn [negb andb]. rewrite Hrun. reflexivity.
  Qed.
End Core.

Section Core2.
  Context {K L : Type} (f : K -> L).

  Definition mval (v : dval K) : dval L :=
    match v with
    | DConst k => DConst (f k)
    | DNoArg => DNoArg | DInt z => DInt z | DName s => DName s | DLocal s => DLocal s
    | DCell s => DCell s | DFree s => DFree s | DJump t r => DJump t r | DBad => DBad
    end.
  Definition gv (firsts : list Z) (i : instr_ K) : vinstr L :=
    mkV (i_name i) (mval (data_val firsts (i_arg i))) (i_line i).

  Lemma map_view_data_view (B : list (list (instr_ K))) :
    map_view f (data_view B) = map (gv (block_first_indices B 0)) (concat B).
  Proof. unfold map_view, data_view. rewrite map_map. reflexivity. Qed.

  Lemma view_arg_gv firsts (i : instr_ K) :
    NoDup firsts ->
    (forall t rel, i_arg i = AJump t rel -> 0 <= t < zlen firsts) ->
    view_arg firsts (gv firsts i) = map_arg_norm f (i_arg i).
  Proof.
    intros Hnd Hj. unfold view_arg, gv. cbn [v_val].
    destruct (i_arg i) as [z|t rel|s ov|s ov|k ov|s|s ov|z] eqn:E; cbn [data_val mval map_arg_norm];
      try reflexivity.
    destruct (Hj t rel eq_refl) as [H0 H1].
    rewrite znth_nonneg by lia.
    destruct (nth_error firsts (Z.to_nat t)) as [x|] eqn:En.
    - rewrite (index_of_nth _ _ _ Hnd En). f_equal. lia.
    - apply nth_error_None in En. unfold zlen in H1. lia.
  Qed.

  Lemma view_targets_firsts (B : list (list (instr_ K))) :
    well_partitioned B -> B <> [] ->
    view_targets (map (gv (block_first_indices B 0)) (concat B)) = block_first_indices B 0.
  Proof.
    intros (Hne & Hin & Hall) HB. set (firsts := block_first_indices B 0).
    assert (Hlen : length firsts = length B) by apply bfi_length.
    assert (Hhd : nth_error firsts 0 = Some 0).
    { unfold firsts. destruct B; [congruence|]. reflexivity. }
    unfold view_targets. apply incr_ext; [apply sorted_set_incr | now apply bfi_incr |].
    intros x. rewrite sorted_set_In. cbn [In]. rewrite in_flat_map. split.
    - intros [<-|[vi [Hvi Hx]]]; [eapply nth_error_In; exact Hhd|].
      apply in_map_iff in Hvi as [i [<- Hi]]. unfold gv in Hx. cbn [v_val] in Hx.
      destruct (i_arg i) as [z|t rel|s ov|s ov|k ov|s|s ov|z] eqn:E; cbn [data_val mval] in Hx;
        try (now destruct Hx).
      destruct Hx as [Hx|[]]. destruct (Hin i t rel Hi E) as [H0 H1].
      rewrite znth_nonneg in Hx by lia.
      destruct (nth_error firsts (Z.to_nat t)) as [y|] eqn:En.
      + subst y. eapply nth_error_In; exact En.
      + apply nth_error_None in En. unfold zlen in H1. lia.
    - intros Hx. apply In_nth_error in Hx as [n Hn]. destruct n as [|n].
      + left. rewrite Hhd in Hn. now inversion Hn.
      + right. assert (Hk : 0 < Z.of_nat (S n) < zlen B).
        { assert (S n < length firsts)%nat by (apply nth_error_Some; congruence).
          unfold zlen. lia. }
        destruct (Hall _ Hk) as [i [rel [Hi E]]].
        exists (gv firsts i). split; [now apply in_map|].
        unfold gv. cbn [v_val]. rewrite E. cbn [data_val mval].
        rewrite znth_nonneg by lia. rewrite Nat2Z.id, Hn. now left.
  Qed.

  Theorem core_rebuild (B : list (list (instr_ K))) :
    well_partitioned B ->
    map (map (map_instr_norm f)) B = blocks_of_view (map_view f (data_view B)).
  Proof.
    intros WP. rewrite map_view_data_view. unfold blocks_of_view.
    destruct B as [|b0 r0] eqn:EB; [reflexivity|]. rewrite <- EB in *.
    assert (HB : B <> []) by (rewrite EB; discriminate).
    rewrite (view_targets_firsts B WP HB).
    destruct WP as (Hne & Hin & Hall). set (firsts := block_first_indices B 0).
    rewrite (cut_all firsts (gv firsts) B 0 [] Hne).
    2:{ intros j _. apply zmem_In. }
    cbn [flush app].
    assert (Hnd : NoDup firsts) by (apply incr_NoDup; now apply bfi_incr).
    apply map_ext_in. intros b Hb. apply map_ext_in. intros i Hi.
    unfold map_instr_norm, ins_of. cbn [gv v_op v_line]. f_equal.
    symmetry. apply view_arg_gv; [exact Hnd|].
    intros t rel E. unfold zlen. unfold firsts. rewrite bfi_length.
    apply (Hin i t rel); [|exact E]. apply in_concat. exists b. split; assumption.
  Qed.
End Core2.

(* ------------------------------------------------------------------ *)
(** * The decoded blocks are well partitioned *)

Section B2B.
  Context {K : Type}.
  Variable c : cfg.
  Variables names varnames freevars cellvars : list str.
  Variable ks : list K.
  Variable keq : K -> K -> bool.

  Lemma b2b_well_partitioned b lm bt a blocks addl lm' :
    cfg_ops_wf c = true -> code_ok c b = true ->
    targets_ok c b names varnames freevars cellvars ks = true ->
    bytes_to_blocks keq c b lm names varnames freevars cellvars ks bt a = OK (blocks, addl, lm') ->
    well_partitioned blocks.
  Proof.
    intros W U Tg H.
    destruct (ops_wf_spec c W) as [HE _].
    unfold bytes_to_blocks in H. cbv zeta in H.
    cbn [d_consts d_names d_varnames d_cellvars] in H.
    match type of H with
    | match ?X with _ => _ end = _ => destruct X as [st1|e] eqn:Est; [|discriminate]
    end.
    assert (S1 : st_ok names varnames cellvars ks st1).
    { destruct (has_docstring bt).
      - destruct (found_index keq (toargs_init ks 0) 0) as [[[x ov] t]|] eqn:F; [|discriminate].
        apply found_index_spec in F as [_ F]. inversion Est; subst st1.
        unfold st_ok. cbn [d_consts d_names d_varnames d_cellvars]. rewrite F.
        repeat split; reflexivity.
      - inversion Est; subst. repeat split; reflexivity. }
    destruct (parse_bytes c b 0 0 0) as [ps|e] eqn:Ep; [|discriminate].
    match type of H with
    | match ?X with _ => _ end = _ => destruct X as [[[ois lm1] st2]|e] eqn:Ed; [|discriminate]
    end.
    destruct (split_blocks (sorted_set (0 :: jump_targets ois)) ois [] false)
      as [blocks0|e] eqn:Es; [|discriminate].
    repeat match type of H with
           | match ?X with _ => _ end = _ => destruct X eqn:?; try discriminate H
           end.
    inversion H; subst blocks0 lm1 addl. clear H.
    destruct (parse_dis_gen c names varnames freevars cellvars ks HE b 0 0 0 ps U
                ltac:(lia) ltac:(lia) ltac:(reflexivity) ltac:(reflexivity) Ep) as [HL Hnn].
    change (0 =? 0) with true in HL. cbv iota in HL.
    pose proof (decode_instrs_view c names varnames freevars cellvars ks keq W _ _ _ _ _ _ S1 Hnn Ed) as Hv.
    pose proof (decode_instrs_offsets _ _ _ _ _ _ _ _ _ Ed) as Hoff.
    destruct (parse_bytes_offsets _ _ _ Ep) as [Hinc [Hfirst _]].
    assert (Hne : ois = [] \/ ois <> []) by (destruct ois; [left; reflexivity|right; discriminate]).
    destruct Hne as [->|Hne].
    { cbn [split_blocks] in Es. inversion Es; subst blocks.
      split; [constructor|]. split.
      - intros i t rel [].
      - intros k Hk. unfold zlen in Hk. cbn [length] in Hk. lia. }
    assert (Hhd : exists i r, ois = (0, i) :: r).
    { destruct ois as [|[o i] r]; [congruence|].
      destruct ps as [|p ps']; [discriminate|]. cbn [map fst] in Hoff. injection Hoff as Ho _.
      rewrite (Hfirst p ps' eq_refl) in Ho. subst o. eauto. }
    assert (Hoi : offsets_increasing ois) by (unfold offsets_increasing; now rewrite Hoff).
    assert (Hfo : map (fun x : Z * instr_ K => fst (fst (oview x))) ois = map fst ois) by reflexivity.
    assert (Hts : targets_are_starts ois).
    { intros t Ht. apply jump_targets_In in Ht as [o [i [rel [Hin Ei]]]].
      unfold targets_ok in Tg. cbv zeta in Tg. rewrite HL, <- Hv in Tg. rewrite forallb_forall in Tg.
      specialize (Tg (oview (o, i)) (in_map oview _ _ Hin)). unfold oview in Tg at 1.
      cbn [snd fst] in Tg. rewrite Ei in Tg. cbn [raw_val] in Tg. apply zmem_In in Tg.
      rewrite map_map, Hfo in Tg. exact Tg. }
    destruct (split_blocks_partition ois Hne Hoi Hhd Hts) as [blocks' [Es' [Hc [Hnb [Hbs [Hlen Hj]]]]]].
    rewrite Es in Es'. inversion Es'; subst blocks'. clear Es'.
    destruct (split_blocks_later_blocks_targeted ois blocks Hoi Hhd Hts Es) as [_ Hlater].
    split; [exact Hnb|]. split.
    - intros i' t rel Hi' E'. rewrite Hc, map_map in Hi'.
      apply in_map_iff in Hi' as [[o i] [<- Hin]]. cbn [snd] in E'.
      destruct (i_arg i) as [z|t0 rel0|s ov|s ov|k ov|s|s ov|z] eqn:EA;
        try (rewrite retarget_nonjump in E' by (intros ? ? X; rewrite EA in X; discriminate X);
             rewrite EA in E'; discriminate E').
      destruct (Hj o i _ _ Hin EA) as [k [Ek [Hk _]]]. rewrite Ek in E'. inversion E'; subst. exact Hk.
    - intros k Hk. destruct (Hlater k Hk) as [o [i [t [rel [Hin [_ [Ek _]]]]]]].
      exists (retarget (sorted_set (0 :: jump_targets ois)) i), rel. split; [|exact Ek].
      rewrite Hc, map_map. apply in_map_iff. exists (o, i). split; [reflexivity|exact Hin].
  Qed.
End B2B.

(* without the premise [co_code code <> []]: with no instruction both sides are [] *)
Theorem nz_of_view_strong : forall c code ks d,
  view_wf c code ks = true ->
  decode_code c code ks = OK d ->
  cd_blocks (normalize d)
  = blocks_of_view (map_view normalize_const
      (dis_view c (co_code code) (co_names code) (co_varnames code) (co_freevars code)
                (co_cellvars code) ks (raw_entries (co_linetable code)) (co_firstlineno code))).
Proof.
  intros c code ks d Wf H.
  rewrite <- (C02_view c code ks d Wf H).
  unfold view_wf in Wf. split_andb.
  destruct (decode_code_blocks c code ks d H) as [lm0 [bt [a [addl [lm' [M B]]]]]].
  unfold normalize. cbn [map_cd_norm cd_blocks].
  apply core_rebuild.
  eapply b2b_well_partitioned; eassumption.
Qed.

Theorem nz_of_view : S_nz_of_view.
Proof. intros c code ks d Wf H _. now apply nz_of_view_strong. Qed.

(* ------------------------------------------------------------------ *)
(** * 6. Canonicity *)

Lemma normalize_eta (d : code_data) :
  normalize d = mkCD (cd_blocks (normalize d)) (cd_filename d) (cd_firstline d) (cd_name d)
                     (cd_stacksize d) (cd_type d) (cd_freevars d) (cd_future_annotations d)
                     false None [].
Proof. reflexivity. Qed.

Lemma canonical_from : S_nz_of_view -> S_canonical.
Proof.
  intros NV c code1 ks1 d1 code2 ks2 d2 W1 W2 D1 D2 N1 N2 V Ty Fv Fn Nm Fl Ss Fa.
  rewrite (normalize_eta d1), (normalize_eta d2).
  rewrite (NV c code1 ks1 d1 W1 D1 N1), (NV c code2 ks2 d2 W2 D2 N2), V, Ty, Fv, Fn, Nm, Fl, Ss, Fa.
  reflexivity.
Qed.

Theorem canonical : S_canonical.
Proof. exact (canonical_from nz_of_view). Qed.

Print Assumptions nz_idempotent.
Print Assumptions nz_congruence.
Print Assumptions nz_wfj.
Print Assumptions nz_json_stable_from.
Print Assumptions history_stable_from.
Print Assumptions core_rebuild.
Print Assumptions nz_of_view_strong.
Print Assumptions nz_of_view.
Print Assumptions canonical.
