(* Statements for C03 (K2 composed) and C05 (normalization preserves the symbolic reading). *)
From PCD Require Import Base.PyBase Base.Cfg Model.Flags Model.Args Model.Data Model.Consts
  Model.LineTable Model.Blocks Model.CodeData Spec.Lnotab Spec.Dis Model.ViewSer
  Proofs.C02_Statements Proofs.C11_Statements Proofs.C01_Statements Proofs.C03_Statements Proofs.C03b_Statements.

(* instruction-by-instruction agreement of two symbolic views: opcode, operand (constants up to the
   key equality [keq]), line *)
Definition view_agrees {C} (keq : C -> C -> bool) (a b : list (vinstr C)) : bool :=
  list_eqb (fun x y => (v_op x =? v_op y) && val_match keq (v_val x) (v_val y)
                       && option_eqb Z.eqb (v_line x) (v_line y)) a b.

(* well-formed data at one level (constants already paired with their encodings): no private
   override fields, operand kinds fit the opcodes, jumps designate existing blocks (relative ones
   forward), every instruction has a line before 3.10, sizes within CPython's own limits *)
Definition data_wf (c : cfg) (d : code_data_ pconst) : bool :=
  cfg_ops_wf c && (0 <=? cfg_extended_arg c) && (cfg_extended_arg c <? 256)
  && blocks_wf c (cd_blocks d)
  && match cd_addargs d with [] => true | _ => false end
  && match cd_addline d with None => true | Some _ => false end
  && (cfg_v310 c || forallb (forallb (fun i : instr_ pconst => opt_is_some (i_line i))) (cd_blocks d))
  && nodup_str (cd_freevars d) && (zlen (cd_freevars d) <? 1073741824)
  && match cd_type d with
     | Some f => zlen (args_to_varnames (fn_args f)) <? 1073741824
     | None => true
     end.

(* C03, one level: encoding well-formed data gives a code object that CPython's disassembler and
   line reader read back as the data's instruction stream; the header says what the data says *)
Definition S_C03_level : Prop := forall c (d : code_data_ pconst) code,
  data_wf c d = true ->
  encode_code c d = OK code ->
  zlen (co_code code) < 1073741824 ->
  exists kst : list pconst,
    map snd kst = co_consts code /\
    view_agrees pkey_eqb (data_view (cd_blocks d))
      (dis_view c (co_code code) (co_names code) (co_varnames code) (co_freevars code)
                (co_cellvars code) kst (raw_entries (co_linetable code)) (co_firstlineno code)) = true /\
    code_ok c (co_code code) = true /\
    co_freevars code = cd_freevars d /\ co_stacksize code = cd_stacksize d /\
    co_firstlineno code = cd_firstline d /\ co_name code = cd_name d /\ co_filename code = cd_filename d /\
    co_nlocals code = zlen (co_varnames code) /\
    match cd_type d with
    | None => co_argcount code = 0 /\ co_kwonlyargcount code = 0 /\ co_posonlyargcount code = 0
    | Some f =>
        let a := fn_args f in
        co_argcount code = zlen (a_posonly a) + zlen (a_poskw a) /\
        co_posonlyargcount code = zlen (a_posonly a) /\
        co_kwonlyargcount code = zlen (a_kwonly a) /\
        take (zlen (args_to_varnames a)) (co_varnames code) = args_to_varnames a
    end.

(* to_code never runs out of fuel on data without negative size overrides: the jump relaxation terminates *)
Definition S_C03_terminates : Prop := forall c (d : code_data_ pconst),
  (forall i n, In i (concat (cd_blocks d)) -> i_nargs i = Some n -> 0 <= n) ->
  encode_code c d <> Err OutOfFuel.

(* C05: the normal form of decoded data is well-formed data, so (by S_C03_level) encoding it gives a
   code object that reads as the normalized view of the original *)
Definition pair_ok (c : cfg) (k : const) (kp : pconst) : Prop := fst kp = k /\ from_const c k = OK (snd kp).

Definition S_C05_normal_form_wf : Prop := forall c code ks d d',
  view_wf c code ks = true -> co_code code <> [] ->
  zlen (co_freevars code) < 1073741824 -> zlen (co_varnames code) < 1073741824 ->
  nodup_str (co_freevars code) = true ->
  decode_code c code ks = OK d ->
  mapM_cd (fun k' => match from_const c k' with OK p => OK (k', p) | Err e => Err e end) (normalize d) = OK d' ->
  (0 <=? cfg_extended_arg c) && (cfg_extended_arg c <? 256) = true ->
  data_wf c d' = true.
