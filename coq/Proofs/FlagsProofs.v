(* Proofs of the C11 flag statements (Proofs/C11_Statements.v). *)
From Coq Require Import ZArith List Bool Lia ZifyBool Sorted.
From PCD Require Import Base.PyBase Base.Cfg Model.Flags Model.Args Spec.Sig Proofs.C11_Statements.
Import ListNotations. Open Scope Z_scope.
Ltac Zify.zify_post_hook ::= Z.to_euclidean_division_equations.

(* ------------------------------------------------------------------ *)
(* powers of two                                                       *)

Lemma pow2_exists v : is_pow2 v = true -> exists k, 0 <= k /\ v = 2 ^ k.
Proof.
  unfold is_pow2. intros H. apply andb_true_iff in H as [Hp Hl].
  apply Z.ltb_lt in Hp. apply Z.eqb_eq in Hl.
  exists (Z.log2 v). split; [apply Z.log2_nonneg|].
  destruct (Z.log2_spec v Hp) as [Hlo Hhi].
  assert (Hpos : 0 < 2 ^ Z.log2 v) by (apply Z.pow_pos_nonneg; [lia | apply Z.log2_nonneg]).
  destruct (Z.eq_dec v (2 ^ Z.log2 v)) as [E|NE]; [exact E|exfalso].
  assert (Hlog : Z.log2 (v - 1) = Z.log2 v).
  { apply Z.log2_unique; [apply Z.log2_nonneg | lia]. }
  assert (B1 : Z.testbit v (Z.log2 v) = true) by (apply Z.bit_log2; lia).
  assert (B2 : Z.testbit (v - 1) (Z.log2 v) = true).
  { rewrite <- Hlog. apply Z.bit_log2. lia. }
  assert (B3 : Z.testbit (Z.land v (v - 1)) (Z.log2 v) = true).
  { rewrite Z.land_spec, B1, B2. reflexivity. }
  rewrite Hl, Z.bits_0 in B3. discriminate.
Qed.

Lemma land_pow2 k w : 0 <= k ->
  Z.land (2 ^ k) w = if Z.testbit w k then 2 ^ k else 0.
Proof.
  intros Hk. apply Z.bits_inj'. intros n Hn.
  rewrite Z.land_spec, Z.pow2_bits_eqb by exact Hk.
  destruct (k =? n) eqn:E.
  - apply Z.eqb_eq in E. subst n.
    destruct (Z.testbit w k); [rewrite Z.pow2_bits_eqb, Z.eqb_refl by exact Hk | rewrite Z.bits_0]; reflexivity.
  - destruct (Z.testbit w k); [rewrite Z.pow2_bits_eqb, E by exact Hk | rewrite Z.bits_0]; reflexivity.
Qed.

Lemma pow2_nonzero k : 0 <= k -> 2 ^ k <> 0.
Proof. intros Hk. pose proof (Z.pow_pos_nonneg 2 k). lia. Qed.

(* for a power of two, "contained in w" and "meets w" coincide *)
Lemma pow2_member_test v w : is_pow2 v = true ->
  negb (v =? 0) && (Z.land v w =? v) = negb (Z.land v w =? 0).
Proof.
  intros H. destruct (pow2_exists v H) as [k [Hk ->]].
  pose proof (pow2_nonzero k Hk) as Hnz.
  rewrite land_pow2 by exact Hk.
  destruct (Z.testbit w k).
  - rewrite Z.eqb_refl. destruct (2 ^ k =? 0) eqn:E; [apply Z.eqb_eq in E; contradiction | reflexivity].
  - rewrite Z.eqb_refl. destruct (2 ^ k =? 0) eqn:E; [apply Z.eqb_eq in E; contradiction |].
    destruct (0 =? 2 ^ k) eqn:E2; [apply Z.eqb_eq in E2; congruence | reflexivity].
Qed.

Lemma pow2_land_bit v w : is_pow2 v = true ->
  Z.land v w <> 0 -> exists k, 0 <= k /\ v = 2 ^ k /\ Z.testbit w k = true.
Proof.
  intros H Hl. destruct (pow2_exists v H) as [k [Hk ->]].
  exists k. split; [exact Hk|]. split; [reflexivity|].
  rewrite land_pow2 in Hl by exact Hk. destruct (Z.testbit w k); congruence.
Qed.

Lemma pow2_same_bit v v' n : is_pow2 v = true -> is_pow2 v' = true ->
  Z.testbit v n = true -> Z.testbit v' n = true -> v = v'.
Proof.
  intros H H' B B'.
  destruct (pow2_exists v H) as [k [Hk ->]]. destruct (pow2_exists v' H') as [k' [Hk' ->]].
  rewrite Z.pow2_bits_eqb in B, B' by assumption.
  apply Z.eqb_eq in B, B'. congruence.
Qed.

(* ------------------------------------------------------------------ *)
(* bits of folds                                                       *)

Lemma testbit_fold_lor vs : forall a n,
  Z.testbit (fold_left Z.lor vs a) n = Z.testbit a n || existsb (fun v => Z.testbit v n) vs.
Proof.
  induction vs as [|v vs IH]; intros a n; cbn [fold_left existsb].
  - now rewrite orb_false_r.
  - rewrite IH, Z.lor_spec. now rewrite orb_assoc.
Qed.

Lemma testbit_known_mask c n :
  Z.testbit (known_mask c) n = existsb (fun fv : flag * Z => Z.testbit (snd fv) n) (cfg_flags c).
Proof.
  unfold known_mask. rewrite testbit_fold_lor, Z.bits_0. cbn [orb].
  induction (cfg_flags c) as [|x l IH]; cbn [map existsb]; [reflexivity | now rewrite IH].
Qed.

Lemma testbit_fold_nc (l : list (flag * Z)) : forall w n, 0 <= n ->
  Z.testbit (fold_left (fun nc fv => Z.land nc (Z.lnot (snd fv))) l w) n
  = Z.testbit w n && negb (existsb (fun fv : flag * Z => Z.testbit (snd fv) n) l).
Proof.
  induction l as [|x l IH]; intros w n Hn; cbn [fold_left existsb].
  - now rewrite andb_true_r.
  - rewrite IH by exact Hn. rewrite Z.land_spec, Z.lnot_spec by exact Hn.
    rewrite negb_orb. now rewrite andb_assoc.
Qed.

(* the stated form of the decomposition residue *)
Lemma fold_nc_mask (l : list (flag * Z)) w :
  fold_left (fun nc fv => Z.land nc (Z.lnot (snd fv))) l w
  = Z.land w (Z.lnot (fold_left Z.lor (map snd l) 0)).
Proof.
  apply Z.bits_inj'. intros n Hn.
  rewrite testbit_fold_nc, Z.land_spec, Z.lnot_spec, testbit_fold_lor, Z.bits_0 by exact Hn.
  cbn [orb]. f_equal. f_equal.
  induction l as [|x l IH]; cbn [map existsb]; [reflexivity | now rewrite IH].
Qed.

(* ------------------------------------------------------------------ *)
(* distinct_Z / NoDup                                                  *)

Lemma existsb_eqb_In x l : existsb (Z.eqb x) l = true <-> In x l.
Proof.
  rewrite existsb_exists. split.
  - intros [y [Hy E]]. apply Z.eqb_eq in E. now subst.
  - intros H. exists x. split; [exact H | apply Z.eqb_refl].
Qed.

Lemma distinct_Z_NoDup l : distinct_Z l = true <-> NoDup l.
Proof.
  induction l as [|x l IH]; cbn [distinct_Z].
  - split; [constructor | reflexivity].
  - rewrite andb_true_iff, negb_true_iff, IH. split.
    + intros [H1 H2]. constructor; [|exact H2].
      intros Hin. apply existsb_eqb_In in Hin. congruence.
    + intros H. inversion H as [|? ? Hn Hd]; subst. split; [|exact Hd].
      destruct (existsb (Z.eqb x) l) eqn:E; [|reflexivity].
      apply existsb_eqb_In in E. contradiction.
Qed.

Lemma flags_wf_parts tbl : flags_wf tbl = true ->
  NoDup (map (fun fv : flag * Z => flag_id (fst fv)) tbl)
  /\ (forall fv, In fv tbl -> is_pow2 (snd fv) = true)
  /\ NoDup (map snd tbl).
Proof.
  unfold flags_wf. rewrite !andb_true_iff. intros [[H1 H2] H3].
  split; [now apply distinct_Z_NoDup|]. split; [|now apply distinct_Z_NoDup].
  rewrite forallb_forall in H2. exact H2.
Qed.

(* ------------------------------------------------------------------ *)
(* flag_value                                                          *)

Lemma flag_value_In tbl f v : flag_value tbl f = Some v ->
  exists g, In (g, v) tbl /\ flag_id g = flag_id f.
Proof.
  induction tbl as [|[g u] tbl IH]; cbn [flag_value]; [discriminate|].
  destruct (flag_eqb f g) eqn:E.
  - intros [= ->]. exists g. split; [now left|]. unfold flag_eqb in E. apply Z.eqb_eq in E. congruence.
  - intros H. destruct (IH H) as [g' [Hin Hid]]. exists g'. split; [now right | exact Hid].
Qed.

Lemma flag_value_distinct tbl g v :
  NoDup (map (fun fv : flag * Z => flag_id (fst fv)) tbl) ->
  In (g, v) tbl -> flag_value tbl g = Some v.
Proof.
  induction tbl as [|[h u] tbl IH]; cbn [map flag_value fst]; intros Hnd Hin; [destruct Hin|].
  inversion Hnd as [|? ? Hn Hd]; subst.
  destruct Hin as [E|Hin].
  - inversion E; subst. unfold flag_eqb. now rewrite Z.eqb_refl.
  - destruct (flag_eqb g h) eqn:E.
    + exfalso. apply Hn. unfold flag_eqb in E. apply Z.eqb_eq in E. rewrite <- E.
      change (flag_id g) with ((fun fv : flag * Z => flag_id (fst fv)) (g, v)).
      now apply in_map.
    + now apply IH.
Qed.

Lemma snd_distinct_fst (tbl : list (flag * Z)) g g' v :
  NoDup (map snd tbl) -> In (g, v) tbl -> In (g', v) tbl -> g = g'.
Proof.
  induction tbl as [|[h u] tbl IH]; cbn [map snd]; intros Hnd H1 H2; [destruct H1|].
  inversion Hnd as [|? ? Hn Hd]; subst.
  destruct H1 as [E1|H1]; destruct H2 as [E2|H2].
  - congruence.
  - inversion E1; subst. exfalso. apply Hn. change v with (snd (g', v)). now apply in_map.
  - inversion E2; subst. exfalso. apply Hn. change v with (snd (g, v)). now apply in_map.
  - now apply IH.
Qed.

(* ------------------------------------------------------------------ *)
(* from_flags_data                                                     *)

Lemma ffd_bits c fs : forall w, from_flags_data c fs = OK w ->
  forall n, Z.testbit w n = true <->
            exists f v, In f fs /\ flag_value (cfg_flags c) f = Some v /\ Z.testbit v n = true.
Proof.
  induction fs as [|f fs IH]; cbn [from_flags_data]; intros w H n.
  - inversion H; subst. rewrite Z.bits_0. split; [discriminate | intros [? [? [[] _]]]].
  - destruct (flag_value (cfg_flags c) f) as [v|] eqn:Ev; [|discriminate].
    destruct (from_flags_data c fs) as [w'|e] eqn:Er; [|discriminate].
    inversion H; subst. rewrite Z.lor_spec, orb_true_iff, (IH w' eq_refl n). split.
    + intros [B|[f' [v' [Hin [Hv B]]]]].
      * exists f, v. repeat split; [now left | exact Ev | exact B].
      * exists f', v'. repeat split; [now right | exact Hv | exact B].
    + intros [f' [v' [[->|Hin] [Hv B]]]].
      * left. congruence.
      * right. exists f', v'. repeat split; assumption.
Qed.

Lemma ffd_defined c fs : forall w, from_flags_data c fs = OK w ->
  forall f, In f fs -> exists v, flag_value (cfg_flags c) f = Some v.
Proof.
  induction fs as [|f fs IH]; cbn [from_flags_data]; intros w H g Hin; [destruct Hin|].
  destruct (flag_value (cfg_flags c) f) as [v|] eqn:Ev; [|discriminate].
  destruct (from_flags_data c fs) as [w'|e] eqn:Er; [|discriminate].
  destruct Hin as [->|Hin]; [now exists v | now apply (IH w' eq_refl)].
Qed.

Lemma ffd_ok c fs :
  (forall f, In f fs -> exists v, flag_value (cfg_flags c) f = Some v) ->
  exists w, from_flags_data c fs = OK w.
Proof.
  induction fs as [|f fs IH]; cbn [from_flags_data]; intros H; [now exists 0|].
  destruct (H f (or_introl eq_refl)) as [v ->].
  destruct IH as [w ->]; [intros g Hg; apply H; now right|].
  now eexists.
Qed.

(* ------------------------------------------------------------------ *)
(* to_flags_data, unfolded                                             *)

Definition members_of (c : cfg) (w : Z) : list (flag * Z) :=
  filter (fun fv : flag * Z => negb (snd fv =? 0) && (Z.land (snd fv) w =? snd fv)) (cfg_flags c).

Lemma to_flags_data_unfold c w :
  to_flags_data c w =
  if w =? 0 then OK []
  else if negb (fold_left (fun nc fv => Z.land nc (Z.lnot (snd fv))) (members_of c w) w =? 0)
       then Err ValueError else OK (map fst (members_of c w)).
Proof. reflexivity. Qed.

Lemma members_sub_bits c w fv n :
  In fv (members_of c w) -> Z.testbit (snd fv) n = true -> Z.testbit w n = true.
Proof.
  unfold members_of. rewrite filter_In, andb_true_iff. intros [_ [_ H]] B.
  apply Z.eqb_eq in H. rewrite <- H, Z.land_spec in B. apply andb_true_iff in B. tauto.
Qed.

(* ------------------------------------------------------------------ *)
(* S_from_to_flags                                                     *)

Lemma from_to_flags : S_from_to_flags.
Proof.
  intros c w fs Hwf H. rewrite to_flags_data_unfold in H.
  destruct (w =? 0) eqn:E0.
  - apply Z.eqb_eq in E0. inversion H; subst. reflexivity.
  - destruct (fold_left _ (members_of c w) w =? 0) eqn:Enc; cbn [negb] in H; [|discriminate].
    apply Z.eqb_eq in Enc. inversion H; subst fs. clear H.
    destruct (flags_wf_parts _ Hwf) as [Hids [Hp2 Hvals]].
    assert (Hdef : forall f, In f (map fst (members_of c w)) ->
                             exists v, flag_value (cfg_flags c) f = Some v).
    { intros f Hin. apply in_map_iff in Hin as [[g v] [<- Hin]]. exists v.
      apply flag_value_distinct; [exact Hids|].
      unfold members_of in Hin. apply filter_In in Hin. tauto. }
    destruct (ffd_ok c _ Hdef) as [w' Hw']. rewrite Hw'. f_equal.
    apply Z.bits_inj'. intros n Hn.
    destruct (Z.testbit w' n) eqn:B'.
    + apply (ffd_bits c _ _ Hw') in B' as [f [v [Hin [Hv B]]]].
      apply in_map_iff in Hin as [[g u] [<- Hin]]. cbn [fst] in Hv.
      assert (Hv' : flag_value (cfg_flags c) g = Some u).
      { apply flag_value_distinct; [exact Hids|].
        unfold members_of in Hin. apply filter_In in Hin. tauto. }
      rewrite Hv in Hv'. inversion Hv'; subst u.
      symmetry. exact (members_sub_bits c w (g, v) n Hin B).
    + destruct (Z.testbit w n) eqn:B; [|reflexivity].
      assert (Bn : Z.testbit (fold_left (fun nc fv => Z.land nc (Z.lnot (snd fv))) (members_of c w) w) n = false)
        by (rewrite Enc; apply Z.bits_0).
      rewrite testbit_fold_nc, B in Bn by exact Hn. cbn [andb] in Bn.
      apply negb_false_iff, existsb_exists in Bn as [[g v] [Hin Bv]]. cbn [snd] in Bv.
      assert (Hv : flag_value (cfg_flags c) g = Some v).
      { apply flag_value_distinct; [exact Hids|].
        unfold members_of in Hin. apply filter_In in Hin. tauto. }
      assert (Bw : Z.testbit w' n = true).
      { apply (ffd_bits c _ _ Hw'). exists g, v. repeat split; [|exact Hv|exact Bv].
        change g with (fst (g, v)). now apply in_map. }
      congruence.
Qed.

(* ------------------------------------------------------------------ *)
(* S_unknown_raises (holds for every w, negative ones included, and needs no well-formedness) *)

Lemma nonzero_bit a : a <> 0 -> exists n, 0 <= n /\ Z.testbit a n = true.
Proof.
  intros Ha.
  destruct (Z.lt_trichotomy a 0) as [Hneg|[E|Hpos]]; [|contradiction|].
  - (* negative: every bit above log2 (lnot a) is set *)
    exists (Z.succ (Z.log2 (Z.lnot a))). split; [pose proof (Z.log2_nonneg (Z.lnot a)); lia|].
    assert (Hl : 0 <= Z.lnot a) by (unfold Z.lnot; lia).
    rewrite <- (Z.lnot_involutive a) at 1.
    rewrite Z.lnot_spec by (pose proof (Z.log2_nonneg (Z.lnot a)); lia).
    rewrite Z.bits_above_log2; [reflexivity | exact Hl | lia].
  - exists (Z.log2 a). split; [apply Z.log2_nonneg | now apply Z.bit_log2].
Qed.

Lemma unknown_raises_gen c w :
  Z.land w (Z.lnot (known_mask c)) <> 0 -> to_flags_data c w = Err ValueError.
Proof.
  intros Hu. rewrite to_flags_data_unfold.
  destruct (w =? 0) eqn:E0.
  - apply Z.eqb_eq in E0. subst w. rewrite Z.land_0_l in Hu. contradiction.
  - destruct (nonzero_bit _ Hu) as [n [Hn B]].
    rewrite Z.land_spec, Z.lnot_spec, testbit_known_mask in B by exact Hn.
    apply andb_true_iff in B as [Bw Bk]. apply negb_true_iff in Bk.
    assert (Bn : Z.testbit (fold_left (fun nc fv => Z.land nc (Z.lnot (snd fv))) (members_of c w) w) n = true).
    { rewrite testbit_fold_nc, Bw by exact Hn. cbn [andb]. apply negb_true_iff.
      destruct (existsb _ (members_of c w)) eqn:Ex; [|reflexivity].
      apply existsb_exists in Ex as [fv [Hin Bv]].
      assert (Hk : existsb (fun fv : flag * Z => Z.testbit (snd fv) n) (cfg_flags c) = true).
      { apply existsb_exists. exists fv. split; [|exact Bv].
        unfold members_of in Hin. apply filter_In in Hin. tauto. }
      congruence. }
    destruct (fold_left _ (members_of c w) w =? 0) eqn:Enc; [|reflexivity].
    apply Z.eqb_eq in Enc. rewrite Enc, Z.bits_0 in Bn. discriminate.
Qed.

Lemma unknown_raises : S_unknown_raises.
Proof. intros c w _ Hu. now apply unknown_raises_gen. Qed.

(* ------------------------------------------------------------------ *)
(* S_known_converts                                                    *)

Lemma members_pow2 c w : flags_wf (cfg_flags c) = true ->
  members_of c w = filter (fun fv : flag * Z => negb (Z.land (snd fv) w =? 0)) (cfg_flags c).
Proof.
  intros Hwf. destruct (flags_wf_parts _ Hwf) as [_ [Hp2 _]].
  unfold members_of. apply filter_ext_in. intros fv Hin.
  apply pow2_member_test. now apply Hp2.
Qed.

Lemma filter_zero_nil (l : list (flag * Z)) :
  filter (fun fv : flag * Z => negb (Z.land (snd fv) 0 =? 0)) l = [].
Proof.
  induction l as [|x l IH]; cbn [filter]; [reflexivity|].
  rewrite Z.land_0_r. cbn. exact IH.
Qed.

Lemma known_converts : S_known_converts.
Proof.
  intros c w Hwf Hk. rewrite to_flags_data_unfold.
  destruct (flags_wf_parts _ Hwf) as [Hids [Hp2 Hvals]].
  destruct (w =? 0) eqn:E0.
  - apply Z.eqb_eq in E0. subst w. f_equal.
    now rewrite filter_zero_nil.
  - assert (Enc : fold_left (fun nc fv => Z.land nc (Z.lnot (snd fv))) (members_of c w) w = 0).
    { apply Z.bits_inj'. intros n Hn. rewrite Z.bits_0, testbit_fold_nc by exact Hn.
      destruct (Z.testbit w n) eqn:Bw; [cbn [andb]|reflexivity].
      apply negb_false_iff.
      assert (Bk : Z.testbit (Z.land w (Z.lnot (known_mask c))) n = false) by (rewrite Hk; apply Z.bits_0).
      rewrite Z.land_spec, Z.lnot_spec, Bw, testbit_known_mask in Bk by exact Hn. cbn [andb] in Bk.
      apply negb_false_iff, existsb_exists in Bk as [fv [Hin Bv]].
      apply existsb_exists. exists fv. split; [|exact Bv].
      rewrite (members_pow2 c w Hwf). apply filter_In. split; [exact Hin|].
      destruct (pow2_exists _ (Hp2 fv Hin)) as [k [Hk0 Ek]].
      rewrite Ek in Bv |- *. rewrite Z.pow2_bits_eqb in Bv by exact Hk0. apply Z.eqb_eq in Bv. subst n.
      rewrite land_pow2, Bw by exact Hk0.
      pose proof (pow2_nonzero k Hk0) as Hnz.
      destruct (2 ^ k =? 0) eqn:E; [apply Z.eqb_eq in E; contradiction | reflexivity]. }
    rewrite Enc. cbn [Z.eqb negb]. now rewrite (members_pow2 c w Hwf).
Qed.

(* ------------------------------------------------------------------ *)
(* sort_Z on duplicate-free lists                                      *)

Lemma insert_In x l y : In y (insert_sorted x l) <-> y = x \/ In y l.
Proof.
  induction l as [|z l IH]; cbn [insert_sorted].
  - cbn. intuition.
  - destruct (x <=? z); cbn [In]; [|rewrite IH]; intuition.
Qed.

Lemma sort_In l y : In y (sort_Z l) <-> In y l.
Proof.
  unfold sort_Z. induction l as [|x l IH]; cbn [fold_right]; [tauto|].
  rewrite insert_In, IH. cbn [In]. intuition.
Qed.

Lemma insert_ss x l : StronglySorted Z.lt l -> ~ In x l -> StronglySorted Z.lt (insert_sorted x l).
Proof.
  induction l as [|z l IH]; cbn [insert_sorted]; intros Hs Hn.
  - constructor; constructor.
  - inversion Hs as [|? ? Hs' Hf]; subst.
    destruct (x <=? z) eqn:E.
    + apply Z.leb_le in E. assert (x < z) by (assert (x <> z) by (intros ->; apply Hn; now left); lia).
      constructor; [exact Hs|]. constructor; [assumption|].
      rewrite Forall_forall in Hf |- *. intros y Hy. specialize (Hf y Hy). lia.
    + apply Z.leb_gt in E. constructor.
      * apply IH; [exact Hs'|]. intros Hin. apply Hn. now right.
      * rewrite Forall_forall in Hf |- *. intros y Hy. apply insert_In in Hy as [->|Hy]; [lia | now apply Hf].
Qed.

Lemma sort_ss l : NoDup l -> StronglySorted Z.lt (sort_Z l).
Proof.
  unfold sort_Z. induction l as [|x l IH]; cbn [fold_right]; intros Hnd; [constructor|].
  inversion Hnd as [|? ? Hn Hd]; subst. apply insert_ss; [now apply IH|].
  intros Hin. apply Hn. now apply (sort_In l x).
Qed.

Lemma ss_unique l1 : forall l2, StronglySorted Z.lt l1 -> StronglySorted Z.lt l2 ->
  (forall x, In x l1 <-> In x l2) -> l1 = l2.
Proof.
  induction l1 as [|x r1 IH]; intros [|y r2] S1 S2 Heq.
  - reflexivity.
  - exfalso. apply (Heq y). now left.
  - exfalso. apply (Heq x). now left.
  - inversion S1 as [|? ? S1' F1]; subst. inversion S2 as [|? ? S2' F2]; subst.
    rewrite Forall_forall in F1, F2.
    assert (Exy : x = y).
    { destruct (proj1 (Heq x) (or_introl eq_refl)) as [E|Hx]; [now symmetry|].
      destruct (proj2 (Heq y) (or_introl eq_refl)) as [E|Hy]; [exact E|].
      specialize (F1 y Hy). specialize (F2 x Hx). lia. }
    subst y. f_equal. apply IH; [exact S1' | exact S2' |].
    intros z. split; intros Hz.
    + destruct (proj1 (Heq z) (or_intror Hz)) as [E|H]; [|exact H]. specialize (F1 z Hz). lia.
    + destruct (proj2 (Heq z) (or_intror Hz)) as [E|H]; [|exact H]. specialize (F2 z Hz). lia.
Qed.

Lemma sort_Z_set_eq l1 l2 : NoDup l1 -> NoDup l2 ->
  (forall x, In x l1 <-> In x l2) -> sort_Z l1 = sort_Z l2.
Proof.
  intros N1 N2 Heq. apply ss_unique; [now apply sort_ss | now apply sort_ss |].
  intros x. rewrite !sort_In. apply Heq.
Qed.

Lemma NoDup_map_filter {A B} (g : A -> B) (p : A -> bool) (l : list A) :
  NoDup (map g l) -> NoDup (map g (filter p l)).
Proof.
  induction l as [|x l IH]; cbn [map filter]; intros Hnd; [constructor|].
  inversion Hnd as [|? ? Hn Hd]; subst.
  destruct (p x); cbn [map]; [|now apply IH].
  constructor; [|now apply IH]. intros Hin. apply Hn.
  apply in_map_iff in Hin as [y [E Hy]]. apply filter_In in Hy as [Hy _].
  rewrite <- E. now apply in_map.
Qed.

(* ------------------------------------------------------------------ *)
(* S_to_from_flags                                                     *)

Lemma to_from_flags : S_to_from_flags.
Proof.
  intros c fs w Hwf Hfs Hw.
  destruct (flags_wf_parts _ Hwf) as [Hids [Hp2 Hvals]].
  assert (Hk : Z.land w (Z.lnot (known_mask c)) = 0).
  { apply Z.bits_inj'. intros n Hn. rewrite Z.bits_0, Z.land_spec, Z.lnot_spec, testbit_known_mask by exact Hn.
    destruct (Z.testbit w n) eqn:Bw; [cbn [andb]|reflexivity].
    apply negb_false_iff.
    apply (ffd_bits c _ _ Hw) in Bw as [f [v [Hin [Hv B]]]].
    apply flag_value_In in Hv as [g [Hg _]].
    apply existsb_exists. exists (g, v). split; [exact Hg | exact B]. }
  eexists. split; [apply (known_converts c w Hwf Hk)|].
  unfold flag_ids. apply sort_Z_set_eq.
  - rewrite map_map. apply NoDup_map_filter. exact Hids.
  - now apply distinct_Z_NoDup.
  - intros i. rewrite map_map, !in_map_iff. split.
    + intros [[g v] [<- Hin]]. cbn [fst]. apply filter_In in Hin as [Hin Hl]. cbn [snd] in Hl.
      apply negb_true_iff, Z.eqb_neq in Hl.
      destruct (pow2_land_bit v w (Hp2 _ Hin) Hl) as [k [Hk0 [Ev Bw]]].
      apply (ffd_bits c _ _ Hw) in Bw as [f [v' [Hf [Hv' B']]]].
      destruct (flag_value_In _ _ _ Hv') as [g' [Hg' Hid']].
      assert (Evv : v = v').
      { apply (pow2_same_bit v v' k); [exact (Hp2 _ Hin) | exact (Hp2 _ Hg') | | exact B'].
        rewrite Ev, Z.pow2_bits_eqb by exact Hk0. apply Z.eqb_refl. }
      subst v'. assert (g = g') by (eapply snd_distinct_fst; eassumption). subst g'.
      exists f. split; [now symmetry | exact Hf].
    + intros [f [<- Hf]].
      destruct (ffd_defined c _ _ Hw f Hf) as [v Hv].
      destruct (flag_value_In _ _ _ Hv) as [g [Hg Hid]].
      exists (g, v). split; [exact Hid|]. apply filter_In. split; [exact Hg|]. cbn [snd].
      destruct (pow2_exists v (Hp2 _ Hg)) as [k [Hk0 Ev]].
      assert (Bw : Z.testbit w k = true).
      { apply (ffd_bits c _ _ Hw). exists f, v. repeat split; [exact Hf | exact Hv |].
        rewrite Ev, Z.pow2_bits_eqb by exact Hk0. apply Z.eqb_refl. }
      rewrite Ev, land_pow2, Bw by exact Hk0.
      pose proof (pow2_nonzero k Hk0) as Hnz.
      destruct (2 ^ k =? 0) eqn:E; [apply Z.eqb_eq in E; contradiction | reflexivity].
Qed.

Print Assumptions from_to_flags.
Print Assumptions unknown_raises.
Print Assumptions known_converts.
Print Assumptions to_from_flags.
