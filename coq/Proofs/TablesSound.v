(* C03 / tables_sound: soundness of the operand-table encoder (FromArgs.add, __setitem__,
   to_tuple) for ARBITRARY operand sequences: if encoding succeeds every operand's index points,
   in the final table, at a value with the operand's key; distinct keys are never merged; overrides
   that collide or leave gaps make the encoder raise ValueError. *)
From Coq Require Import ZArith List Bool Lia ZifyBool.
From PCD Require Import Base.PyBase Base.Cfg Model.Flags Model.Args Model.Data Model.LineTable
  Model.Blocks.
From PCD Require Import Proofs.TablesReplay.
Import ListNotations. Open Scope Z_scope.
Ltac Zify.zify_post_hook ::= Z.to_euclidean_division_equations.

(* ------------------------------------------------------------------ *)
(** * to_tuple *)

Section ToTuple.
  Context {T : Type}.

  Lemma collect_nth (d : odict T) : forall n i l,
    collect d n i = Some l ->
    length l = n /\ forall k, (k < n)%nat -> nth_error l k = oget d (i + Z.of_nat k).
  Proof.
    induction n as [|n IH]; intros i l H; cbn [collect] in H.
    - inversion H; subst. split; [reflexivity|]. intros k Hk; lia.
    - destruct (oget d i) as [v|] eqn:Ev; [|discriminate].
      destruct (collect d n (i + 1)) as [r|] eqn:Er; [|discriminate].
      inversion H; subst. destruct (IH _ _ Er) as [Hl Hn].
      split; [cbn [length]; lia|].
      intros [|k] Hk; cbn [nth_error].
      + replace (i + Z.of_nat 0) with i by lia. now rewrite Ev.
      + rewrite Hn by lia. f_equal. lia.
  Qed.

  (* pigeonhole: when the indices 0..n-1 are all used and there are n entries, no other index
     is used *)
  Lemma collect_keys (d : odict T) l :
    collect d (length d) 0 = Some l ->
    forall i, In i (okeys d) -> 0 <= i < zlen d.
  Proof.
    intros H. destruct (collect_nth _ _ _ _ H) as [Hl Hn].
    assert (Hincl : incl (okeys d) (zrange (length d))).
    { apply NoDup_length_incl.
      - apply NoDup_zrange.
      - rewrite zrange_length. unfold okeys. rewrite map_length. lia.
      - intros i Hi. apply in_zrange in Hi. apply omem_In. unfold omem.
        specialize (Hn (Z.to_nat i)). replace (0 + Z.of_nat (Z.to_nat i)) with i in Hn by lia.
        rewrite <- Hn by lia.
        destruct (nth_error l (Z.to_nat i)) eqn:E; [reflexivity|].
        apply nth_error_None in E. lia. }
    intros i Hi. apply Hincl in Hi. apply in_zrange in Hi. unfold zlen. exact Hi.
  Qed.

  (* the table returned by to_tuple is exactly the items dictionary *)
  Theorem to_tuple_sound (st : fromargs T) tbl :
    fa_to_tuple st = OK tbl ->
    zlen tbl = zlen (fa_items st) /\
    (forall i v, oget (fa_items st) i = Some v ->
                 0 <= i < zlen tbl /\ nth_error tbl (Z.to_nat i) = Some v) /\
    (forall i, 0 <= i < zlen tbl -> oget (fa_items st) i = nth_error tbl (Z.to_nat i)).
  Proof.
    unfold fa_to_tuple. destruct (collect _ _ _) as [l|] eqn:Ec; [|discriminate].
    intros H; inversion H; subst l. destruct (collect_nth _ _ _ _ Ec) as [Hl Hn].
    assert (Hz : zlen tbl = zlen (fa_items st)) by (unfold zlen; now rewrite Hl).
    assert (Hnth : forall i, 0 <= i < zlen tbl -> oget (fa_items st) i = nth_error tbl (Z.to_nat i)).
    { intros i Hi. rewrite Hn by (unfold zlen in *; lia). f_equal. lia. }
    split; [exact Hz|]. split; [|exact Hnth].
    intros i v Hv.
    assert (Hr : 0 <= i < zlen (fa_items st)).
    { apply (collect_keys _ _ Ec). apply omem_In. unfold omem. now rewrite Hv. }
    rewrite <- Hz in Hr. split; [exact Hr|]. rewrite <- Hnth by exact Hr. exact Hv.
  Qed.

  (* the set of used indices is exactly {0..n-1} *)
  Corollary to_tuple_keys (st : fromargs T) tbl :
    fa_to_tuple st = OK tbl ->
    forall i, In i (okeys (fa_items st)) <-> 0 <= i < zlen (fa_items st).
  Proof.
    intros H i. destruct (to_tuple_sound _ _ H) as (Hz & Hs & Hn). rewrite <- Hz. split.
    - intros Hi. apply omem_In, omem_oget in Hi as [v Hv]. now apply Hs in Hv.
    - intros Hi. apply omem_In. unfold omem. rewrite (Hn _ Hi).
      destruct (nth_error tbl (Z.to_nat i)) eqn:E; [reflexivity|].
      apply nth_error_None in E. unfold zlen in Hi. lia.
  Qed.

  Lemma to_tuple_err (st : fromargs T) e : fa_to_tuple st = Err e -> e = ValueError.
  Proof. unfold fa_to_tuple. destruct (collect _ _ _); intros H; inversion H; reflexivity. Qed.

  (* a used index outside 0..n-1 (negative override, or a gap) makes to_tuple raise *)
  Theorem to_tuple_gap (st : fromargs T) i :
    omem (fa_items st) i = true -> ~ (0 <= i < zlen (fa_items st)) ->
    fa_to_tuple st = Err ValueError.
  Proof.
    intros Hm Hr. destruct (fa_to_tuple st) as [tbl|e] eqn:E.
    - exfalso. apply Hr. apply (to_tuple_keys _ _ E). now apply omem_In.
    - now rewrite (to_tuple_err _ _ E).
  Qed.
End ToTuple.

(* ------------------------------------------------------------------ *)
(** * The invariant of encoder states *)

Section Sound.
  Context {T : Type} (keq : T -> T -> bool).
  Hypothesis keq_refl : forall x, keq x x = true.
  Hypothesis keq_sym : forall x y, keq x y = keq y x.
  Hypothesis keq_trans : forall x y z, keq x y = true -> keq y z = true -> keq x z = true.

  (* at most one entry per key class *)
  Fixpoint keys_uniq (ks : list (T * Z)) : Prop :=
    match ks with
    | [] => True
    | (k, _) :: r => (forall k' j, In (k', j) r -> keq k k' = false) /\ keys_uniq r
    end.

  Record fa_wf (st : fromargs T) : Prop := {
    (* every remembered key points at a value of that key *)
    wf_index : forall k i, In (k, i) (fa_index st) ->
                 exists v, oget (fa_items st) i = Some v /\ keq v k = true;
    (* dictionary keys are distinct *)
    wf_nodup : NoDup (okeys (fa_items st));
    wf_uniq : keys_uniq (fa_index st)
  }.

  (* key monotonicity: an index that holds a value keeps a value of the same key *)
  Definition fa_le (st st' : fromargs T) : Prop :=
    forall i v, oget (fa_items st) i = Some v ->
                exists v', oget (fa_items st') i = Some v' /\ keq v' v = true.

  Lemma fa_le_refl st : fa_le st st.
  Proof. intros i v H. eauto. Qed.

  Lemma fa_le_trans s1 s2 s3 : fa_le s1 s2 -> fa_le s2 s3 -> fa_le s1 s3.
  Proof.
    intros H1 H2 i v Hv. destruct (H1 _ _ Hv) as (v1 & Hv1 & E1).
    destruct (H2 _ _ Hv1) as (v2 & Hv2 & E2). exists v2. split; [exact Hv2|].
    eapply keq_trans; eauto.
  Qed.

  Lemma fa_wf_empty : fa_wf fromargs_empty.
  Proof. constructor; cbn; [intros k i [] | constructor | exact I]. Qed.

  Lemma In_key_set ks a i k j :
    In (k, j) (key_set keq ks a i) -> In (k, j) ks \/ (j = i /\ keq a k = true).
  Proof.
    induction ks as [|[k' j'] r IH]; cbn [key_set].
    - intros [H|[]]. inversion H; subst. right. split; [reflexivity | apply keq_refl].
    - destruct (keq a k') eqn:E.
      + intros [H|H].
        * inversion H; subst. right. auto.
        * left. now right.
      + intros [H|H].
        * left. now left.
        * destruct (IH H) as [H'|H']; [left; now right | now right].
  Qed.

  Lemma In_key_set_key ks a i k j :
    In (k, j) (key_set keq ks a i) -> (exists j', In (k, j') ks) \/ k = a.
  Proof.
    induction ks as [|[k' j'] r IH]; cbn [key_set].
    - intros [H|[]]. inversion H; subst. now right.
    - destruct (keq a k') eqn:E.
      + intros [H|H].
        * inversion H; subst. left. exists j'. now left.
        * left. exists j. now right.
      + intros [H|H].
        * left. exists j. now left.
        * destruct (IH H) as [[j0 H']|H']; [left; exists j0; now right | now right].
  Qed.

  Lemma keys_uniq_key_set ks a i : keys_uniq ks -> keys_uniq (key_set keq ks a i).
  Proof.
    induction ks as [|[k' j'] r IH]; cbn [key_set keys_uniq].
    - intros _. split; [intros k' j []| exact I].
    - intros [H1 H2]. destruct (keq a k') eqn:E; cbn [keys_uniq].
      + split; assumption.
      + split; [|now apply IH]. intros k j Hin.
        destruct (In_key_set_key _ _ _ _ _ Hin) as [[j0 H]|H].
        * eapply H1; eauto.
        * subst k. now rewrite keq_sym.
  Qed.

  Lemma fa_setitem_spec st i a st' :
    fa_setitem keq st i a = OK st' ->
    (forall old, oget (fa_items st) i = Some old -> keq old a = true) /\
    fa_items st' = oset (fa_items st) i a /\
    fa_index st' = key_set keq (fa_index st) a i.
  Proof.
    unfold fa_setitem. destruct (oget (fa_items st) i) as [old|] eqn:Eo.
    - destruct (keq old a) eqn:Ek; cbn [negb]; [|discriminate].
      intros H; inversion H; subst; cbn [fa_items fa_index]. repeat split.
      intros old' Ho; inversion Ho; subst. exact Ek.
    - intros H; inversion H; subst; cbn [fa_items fa_index]. repeat split. discriminate.
  Qed.

  (* collisions raise: storing at an index that holds a value with a different key *)
  Lemma fa_setitem_clash st i a old :
    oget (fa_items st) i = Some old -> keq old a = false ->
    fa_setitem keq st i a = Err ValueError.
  Proof. intros Ho Ek. unfold fa_setitem. now rewrite Ho, Ek. Qed.

  Lemma fa_add_clash st i a old :
    oget (fa_items st) i = Some old -> keq old a = false ->
    fa_add keq st a (Some i) = Err ValueError.
  Proof. intros Ho Ek. unfold fa_add. now rewrite (fa_setitem_clash _ _ _ _ Ho Ek). Qed.

  Lemma fa_setitem_err st i a e : fa_setitem keq st i a = Err e -> e = ValueError.
  Proof.
    unfold fa_setitem. destruct (match oget _ _ with Some _ => _ | None => _ end);
      intros H; inversion H; reflexivity.
  Qed.

  Lemma fa_add_err st a ov e : fa_add keq st a ov = Err e -> e = ValueError.
  Proof.
    unfold fa_add. destruct ov as [i|].
    - destruct (fa_setitem keq st i a) eqn:E; intros H; inversion H; subst.
      eapply fa_setitem_err; eauto.
    - destruct (key_lookup keq (fa_index st) a); [discriminate|].
      destruct (fa_setitem keq st _ a) eqn:E; intros H; inversion H; subst.
      eapply fa_setitem_err; eauto.
  Qed.

  Lemma fa_setitem_at st i a st' :
    fa_setitem keq st i a = OK st' -> oget (fa_items st') i = Some a.
  Proof.
    intros H. apply fa_setitem_spec in H as (_ & Hi & _). rewrite Hi, oget_oset.
    now rewrite Z.eqb_refl.
  Qed.

  Lemma fa_setitem_le st i a st' : fa_setitem keq st i a = OK st' -> fa_le st st'.
  Proof.
    intros H. apply fa_setitem_spec in H as (Hc & Hi & _). intros j v Hv.
    rewrite Hi, oget_oset. destruct (i =? j) eqn:E.
    - assert (i = j) by lia. subst j. exists a. split; [reflexivity|].
      rewrite keq_sym. now apply Hc.
    - eauto.
  Qed.

  Lemma fa_setitem_wf st i a st' : fa_wf st -> fa_setitem keq st i a = OK st' -> fa_wf st'.
  Proof.
    intros [W1 W2 W3] H. apply fa_setitem_spec in H as (Hc & Hi & Hx). constructor.
    - intros k j Hin. rewrite Hx in Hin. rewrite Hi, oget_oset.
      destruct (In_key_set _ _ _ _ _ Hin) as [Hold|[-> Hk]].
      + destruct (W1 _ _ Hold) as (v & Hv & Ev). destruct (i =? j) eqn:E.
        * assert (i = j) by lia. subst j. exists a. split; [reflexivity|].
          eapply keq_trans; [|exact Ev]. rewrite keq_sym. now apply Hc.
        * eauto.
      + rewrite Z.eqb_refl. eauto.
    - rewrite Hi, okeys_oset. destruct (omem (fa_items st) i) eqn:Em; [exact W2|].
      apply NoDup_app_snoc; [exact W2|]. intros Hin. apply omem_In in Hin. congruence.
    - rewrite Hx. now apply keys_uniq_key_set.
  Qed.

  Lemma key_lookup_In ks a i :
    key_lookup keq ks a = Some i -> exists k, In (k, i) ks /\ keq a k = true.
  Proof.
    induction ks as [|[k' j] r IH]; cbn [key_lookup]; [discriminate|].
    destruct (keq a k') eqn:E.
    - intros H; inversion H; subst. exists k'. split; [now left | exact E].
    - intros H. destruct (IH H) as (k & Hin & Hk). exists k. split; [now right | exact Hk].
  Qed.

  (* one [add]: invariant, monotonicity, override respected, returned index holds the key *)
  Theorem fa_add_sound st a ov i st' :
    fa_wf st -> fa_add keq st a ov = OK (i, st') ->
    fa_wf st' /\ fa_le st st' /\ (forall j, ov = Some j -> i = j) /\
    exists v, oget (fa_items st') i = Some v /\ keq v a = true.
  Proof.
    intros W. unfold fa_add. destruct ov as [j|].
    - destruct (fa_setitem keq st j a) as [s|] eqn:E; [|discriminate].
      intros H; inversion H; subst. split; [eapply fa_setitem_wf; eauto|].
      split; [eapply fa_setitem_le; eauto|]. split; [intros j0 Hj; now inversion Hj|].
      exists a. split; [eapply fa_setitem_at; eauto | apply keq_refl].
    - destruct (key_lookup keq (fa_index st) a) as [j|] eqn:Ek.
      + intros H; inversion H; subst. split; [exact W|]. split; [apply fa_le_refl|].
        split; [discriminate|].
        destruct (key_lookup_In _ _ _ Ek) as (k & Hin & Hk).
        destruct (wf_index _ W _ _ Hin) as (v & Hv & Ev). exists v. split; [exact Hv|].
        eapply keq_trans; [exact Ev|]. now rewrite keq_sym.
      + destruct (fa_setitem keq st (zlen (fa_items st)) a) as [s|] eqn:E; [|discriminate].
        intros H; inversion H; subst. split; [eapply fa_setitem_wf; eauto|].
        split; [eapply fa_setitem_le; eauto|]. split; [discriminate|].
        exists a. split; [eapply fa_setitem_at; eauto | apply keq_refl].
  Qed.

  Corollary fa_add_wf st a ov i st' :
    fa_wf st -> fa_add keq st a ov = OK (i, st') ->
    fa_wf st' /\ exists v, oget (fa_items st') i = Some v /\ keq v a = true.
  Proof. intros W H. destruct (fa_add_sound _ _ _ _ _ W H) as (? & _ & _ & ?). auto. Qed.

  Corollary fa_add_le st a ov i st' : fa_add keq st a ov = OK (i, st') -> fa_le st st'.
  Proof.
    unfold fa_add. destruct ov as [j|].
    - destruct (fa_setitem keq st j a) as [s|] eqn:E; [|discriminate].
      intros H; inversion H; subst. eapply fa_setitem_le; eauto.
    - destruct (key_lookup keq (fa_index st) a) as [j|].
      + intros H; inversion H; subst. apply fa_le_refl.
      + destruct (fa_setitem keq st (zlen (fa_items st)) a) as [s|] eqn:E; [|discriminate].
        intros H; inversion H; subst. eapply fa_setitem_le; eauto.
  Qed.

  (* ---------------------------------------------------------------- *)
  (** ** Runs of [add] *)

  Definition holds (st : fromargs T) (x : T * option Z) (i : Z) : Prop :=
    (forall j, snd x = Some j -> i = j) /\
    exists v, oget (fa_items st) i = Some v /\ keq v (fst x) = true.

  Lemma holds_le st st' x i : fa_le st st' -> holds st x i -> holds st' x i.
  Proof.
    intros Hle [Ho (v & Hv & Ev)]. split; [exact Ho|].
    destruct (Hle _ _ Hv) as (v' & Hv' & Ev'). exists v'. split; [exact Hv'|].
    eapply keq_trans; eauto.
  Qed.

  Lemma add_all_le : forall l st0 idxs st, add_all keq st0 l = OK (idxs, st) -> fa_le st0 st.
  Proof.
    induction l as [|[a ov] r IH]; intros st0 idxs st H; cbn [add_all] in H.
    - inversion H; subst. apply fa_le_refl.
    - destruct (fa_add keq st0 a ov) as [[i st1]|] eqn:Ea; [|discriminate].
      destruct (add_all keq st1 r) as [[is st2]|] eqn:Er; [|discriminate].
      inversion H; subst. eapply fa_le_trans; [eapply fa_add_le; eauto | eapply IH; eauto].
  Qed.

  (* state-level soundness *)
  Theorem add_all_sound : forall l st0 idxs st,
    fa_wf st0 -> add_all keq st0 l = OK (idxs, st) ->
    fa_wf st /\ fa_le st0 st /\ Forall2 (holds st) l idxs.
  Proof.
    induction l as [|[a ov] r IH]; intros st0 idxs st W H; cbn [add_all] in H.
    - inversion H; subst. split; [exact W|]. split; [apply fa_le_refl | constructor].
    - destruct (fa_add keq st0 a ov) as [[i st1]|] eqn:Ea; [|discriminate].
      destruct (add_all keq st1 r) as [[is st2]|] eqn:Er; [|discriminate].
      inversion H; subst.
      destruct (fa_add_sound _ _ _ _ _ W Ea) as (W1 & L1 & Ho & Hv).
      destruct (IH _ _ _ W1 Er) as (W2 & L2 & F2).
      split; [exact W2|]. split; [eapply fa_le_trans; eauto|].
      constructor; [|exact F2]. eapply holds_le; [exact L2|]. split; assumption.
  Qed.

  Lemma add_all_err : forall l st0 e, add_all keq st0 l = Err e -> e = ValueError.
  Proof.
    induction l as [|[a ov] r IH]; intros st0 e H; cbn [add_all] in H; [discriminate|].
    destruct (fa_add keq st0 a ov) as [[i st1]|e1] eqn:Ea.
    - destruct (add_all keq st1 r) as [[is st2]|e2] eqn:Er; [discriminate|].
      inversion H; subst. eapply IH; eauto.
    - inversion H; subst. eapply fa_add_err; eauto.
  Qed.

  Lemma Forall2_weaken {A B} (P Q : A -> B -> Prop) l1 l2 :
    (forall a b, P a b -> Q a b) -> Forall2 P l1 l2 -> Forall2 Q l1 l2.
  Proof. intros H; induction 1; constructor; auto. Qed.

  (** ** tables_sound *)
  Theorem tables_sound : forall (st0 : fromargs T) (l : list (T * option Z)) idxs st tbl,
    fa_wf st0 ->
    add_all keq st0 l = OK (idxs, st) ->
    fa_to_tuple st = OK tbl ->
    Forall2 (fun (x : T * option Z) (i : Z) =>
               0 <= i < zlen tbl /\
               exists v, nth_error tbl (Z.to_nat i) = Some v /\ keq v (fst x) = true) l idxs.
  Proof.
    intros st0 l idxs st tbl W Ha Ht.
    destruct (add_all_sound _ _ _ _ W Ha) as (_ & _ & F).
    destruct (to_tuple_sound _ _ Ht) as (_ & Hs & _).
    eapply Forall2_weaken; [|exact F]. intros x i [_ (v & Hv & Ev)].
    destruct (Hs _ _ Hv) as [Hr Hn]. split; [exact Hr|]. eauto.
  Qed.

  (* explicit positions are respected *)
  Theorem tables_sound_override : forall (st0 : fromargs T) l idxs st,
    fa_wf st0 -> add_all keq st0 l = OK (idxs, st) ->
    Forall2 (fun (x : T * option Z) (i : Z) => forall j, snd x = Some j -> i = j) l idxs.
  Proof.
    intros st0 l idxs st W Ha. destruct (add_all_sound _ _ _ _ W Ha) as (_ & _ & F).
    eapply Forall2_weaken; [|exact F]. intros x i [Ho _]. exact Ho.
  Qed.

  Lemma Forall2_nth {A B} (P : A -> B -> Prop) : forall l1 l2, Forall2 P l1 l2 ->
    forall n a b, nth_error l1 n = Some a -> nth_error l2 n = Some b -> P a b.
  Proof.
    induction 1 as [|x y l1 l2 Hxy HF IH]; intros [|n] a b Ha Hb; cbn [nth_error] in *;
      try discriminate.
    - inversion Ha; inversion Hb; subst. exact Hxy.
    - eapply IH; eauto.
  Qed.

  (* distinct keys are never merged *)
  Theorem distinct_keys_not_merged : forall (st0 : fromargs T) l idxs st p q x y ix iy,
    fa_wf st0 -> add_all keq st0 l = OK (idxs, st) ->
    nth_error l p = Some x -> nth_error idxs p = Some ix ->
    nth_error l q = Some y -> nth_error idxs q = Some iy ->
    keq (fst x) (fst y) = false -> ix <> iy.
  Proof.
    intros st0 l idxs st p q x y ix iy W Ha Hx Hix Hy Hiy Hk Heq. subst iy.
    destruct (add_all_sound _ _ _ _ W Ha) as (_ & _ & F).
    destruct (Forall2_nth _ _ _ F _ _ _ Hx Hix) as [_ (v & Hv & Ev)].
    destruct (Forall2_nth _ _ _ F _ _ _ Hy Hiy) as [_ (v' & Hv' & Ev')].
    rewrite Hv in Hv'. inversion Hv'; subst v'.
    assert (keq (fst x) (fst y) = true).
    { eapply keq_trans; [|exact Ev']. now rewrite keq_sym. }
    congruence.
  Qed.

  Lemma Forall2_In_r {A B} (P : A -> B -> Prop) l1 l2 b :
    Forall2 P l1 l2 -> In b l2 -> exists a, In a l1 /\ P a b.
  Proof.
    induction 1 as [|x y l1 l2 Hxy HF IH]; intros Hin; [destruct Hin|].
    destruct Hin as [->|Hin]; [exists x; split; [now left | exact Hxy]|].
    destruct (IH Hin) as (a & Ha & Hp). exists a. split; [now right | exact Hp].
  Qed.

  Lemma Forall2_In_l {A B} (P : A -> B -> Prop) l1 l2 a :
    Forall2 P l1 l2 -> In a l1 -> exists b, In b l2 /\ P a b.
  Proof.
    induction 1 as [|x y l1 l2 Hxy HF IH]; intros Hin; [destruct Hin|].
    destruct Hin as [->|Hin]; [exists y; split; [now left | exact Hxy]|].
    destruct (IH Hin) as (b & Hb & Hp). exists b. split; [now right | exact Hp].
  Qed.

  (* gaps raise *)
  Theorem gaps_raise : forall (st0 : fromargs T) l idxs st i,
    fa_wf st0 -> add_all keq st0 l = OK (idxs, st) ->
    In i idxs -> ~ (0 <= i < zlen (fa_items st)) ->
    fa_to_tuple st = Err ValueError.
  Proof.
    intros st0 l idxs st i W Ha Hin Hr.
    destruct (add_all_sound _ _ _ _ W Ha) as (_ & _ & F).
    destruct (Forall2_In_r _ _ _ _ F Hin) as (x & _ & _ & (v & Hv & _)).
    apply (to_tuple_gap st i); [|exact Hr]. unfold omem. now rewrite Hv.
  Qed.

  (* in particular an override that is negative or beyond the number of used indices *)
  Corollary override_gap_raises : forall (st0 : fromargs T) l idxs st a i,
    fa_wf st0 -> add_all keq st0 l = OK (idxs, st) ->
    In (a, Some i) l -> ~ (0 <= i < zlen (fa_items st)) ->
    fa_to_tuple st = Err ValueError.
  Proof.
    intros st0 l idxs st a i W Ha Hin Hr.
    destruct (add_all_sound _ _ _ _ W Ha) as (_ & _ & F).
    destruct (Forall2_In_l _ _ _ _ F Hin) as (j & Hj & Ho & _).
    cbn [snd] in Ho. assert (j = i) by now apply Ho. subst j.
    eapply gaps_raise; eauto.
  Qed.

  (* the part of the state-level soundness that does not need fa_wf *)
  Lemma add_all_override_holds : forall l st0 idxs st, add_all keq st0 l = OK (idxs, st) ->
    forall c j, In (c, Some j) l ->
    exists v, oget (fa_items st) j = Some v /\ keq v c = true.
  Proof.
    induction l as [|[a ov] r IH]; intros st0 idxs st H c j Hin; [destruct Hin|].
    cbn [add_all] in H.
    destruct (fa_add keq st0 a ov) as [[i st1]|] eqn:Ea; [|discriminate].
    destruct (add_all keq st1 r) as [[is st2]|] eqn:Er; [|discriminate].
    inversion H; subst. destruct Hin as [Hin|Hin].
    - inversion Hin; subst. unfold fa_add in Ea.
      destruct (fa_setitem keq st0 j c) as [s|] eqn:Es; [|discriminate].
      inversion Ea; subst. apply fa_setitem_at in Es.
      destruct (add_all_le _ _ _ _ Er _ _ Es) as (v & Hv & Ev). eauto.
    - eapply IH; eauto.
  Qed.

  (* collisions raise: no invariant needed on the initial state *)
  Theorem collisions_raise : forall (st0 : fromargs T) l a b i,
    In (a, Some i) l -> In (b, Some i) l -> keq a b = false ->
    add_all keq st0 l = Err ValueError.
  Proof.
    intros st0 l a b i Ha Hb Hk.
    destruct (add_all keq st0 l) as [[idxs st]|e] eqn:E.
    - exfalso.
      destruct (add_all_override_holds _ _ _ _ E _ _ Ha) as (v & Hv & Ev).
      destruct (add_all_override_holds _ _ _ _ E _ _ Hb) as (v' & Hv' & Ev').
      rewrite Hv in Hv'. inversion Hv'; subst v'.
      assert (keq a b = true).
      { eapply keq_trans; [|exact Ev']. now rewrite keq_sym. }
      congruence.
    - now rewrite (add_all_err _ _ _ E).
  Qed.

  (* preset: for i, k in enumerate(l): t[i] = k *)
  Lemma set_all_wf : forall l i t t',
    fa_wf t -> set_all keq l i t = OK t' -> fa_wf t' /\ fa_le t t'.
  Proof.
    induction l as [|k r IH]; intros i t t' W H; cbn [set_all] in H.
    - inversion H; subst. split; [exact W | apply fa_le_refl].
    - destruct (fa_setitem keq t i k) as [t1|] eqn:E; [|discriminate].
      destruct (IH _ _ _ (fa_setitem_wf _ _ _ _ W E) H) as [W' L'].
      split; [exact W'|]. eapply fa_le_trans; [eapply fa_setitem_le; eauto | exact L'].
  Qed.
End Sound.


(* the invariant is a real premise: an index entry pointing nowhere breaks the conclusion *)
Example tables_sound_needs_wf :
  let st0 := {| fa_items := []; fa_index := [(7, 5)] |} in
  add_all Z.eqb st0 [(7, None)] = OK ([5], st0) /\ fa_to_tuple st0 = OK [].
Proof. vm_compute. split; reflexivity. Qed.

(* concrete runs; [par]: integers compared modulo 2 *)
Definition par (x y : Z) : bool := (x mod 2 =? y mod 2).
Example gap_raises_ex :
  match add_all Z.eqb fromargs_empty [(10, Some 0); (20, Some 2)] with
  | OK (idxs, st) => idxs = [0; 2] /\ fa_to_tuple st = Err ValueError
  | Err _ => False
  end.
Proof. vm_compute. split; reflexivity. Qed.

Example negative_override_raises_ex :
  match add_all Z.eqb fromargs_empty [(10, Some (-1)); (20, None)] with
  | OK (idxs, st) => idxs = [-1; 1] /\ fa_to_tuple st = Err ValueError
  | Err _ => False
  end.
Proof. vm_compute. split; reflexivity. Qed.

Example collision_raises_ex :
  add_all par fromargs_empty [(10, Some 0); (20, None); (11, Some 0)] = Err ValueError.
Proof. vm_compute. reflexivity. Qed.

(* key-equal values stored at one index are accepted: the later value replaces the earlier one,
   which is why the conclusion of tables_sound is "key-equal", not "equal" *)
Example same_key_override_ex :
  match add_all par fromargs_empty [(10, Some 0); (12, Some 0)] with
  | OK (idxs, st) => idxs = [0; 0] /\ fa_to_tuple st = OK [12]
  | Err _ => False
  end.
Proof. vm_compute. split; reflexivity. Qed.

(* ------------------------------------------------------------------ *)
(** * String tables *)

Lemma str_eqb_refl x : str_eqb x x = true.
Proof. now apply str_eqb_spec. Qed.

Lemma str_eqb_sym x y : str_eqb x y = str_eqb y x.
Proof.
  destruct (str_eqb x y) eqn:E1; destruct (str_eqb y x) eqn:E2; try reflexivity.
  - apply str_eqb_spec in E1. subst. now rewrite str_eqb_refl in E2.
  - apply str_eqb_spec in E2. subst. now rewrite str_eqb_refl in E1.
Qed.

Lemma str_eqb_trans x y z : str_eqb x y = true -> str_eqb y z = true -> str_eqb x z = true.
Proof. intros H1 H2. apply str_eqb_spec in H1, H2. subst. apply str_eqb_refl. Qed.

Lemma index_of_sound {A} (eqb : A -> A -> bool) x : forall l i,
  index_of eqb x l = Some i ->
  0 <= i < zlen l /\ exists y, nth_error l (Z.to_nat i) = Some y /\ eqb x y = true.
Proof.
  induction l as [|y r IH]; intros i H; cbn [index_of] in H; [discriminate|].
  destruct (eqb x y) eqn:E.
  - inversion H; subst. split; [unfold zlen; cbn [length]; lia|]. exists y. auto.
  - destruct (index_of eqb x r) as [j|] eqn:Ej; [|discriminate]. inversion H; subst.
    destruct (IH _ eq_refl) as [Hr (z & Hz & Ez)].
    split; [unfold zlen in *; cbn [length]; lia|]. exists z. split; [|exact Ez].
    replace (Z.to_nat (j + 1)) with (S (Z.to_nat j)) by lia. exact Hz.
Qed.

(* ------------------------------------------------------------------ *)
(** * The four tables of the encoder *)

Section EncSound.
  Context {C : Type} (keq : C -> C -> bool) (is_str : C -> bool) (none_c : C) (str_c : str -> C).
  Hypothesis keq_refl : forall x, keq x x = true.
  Hypothesis keq_sym : forall x y, keq x y = keq y x.
  Hypothesis keq_trans : forall x y z, keq x y = true -> keq y z = true -> keq x z = true.

  Definition enc_wf (st : encstate C) : Prop :=
    fa_wf str_eqb (e_names st) /\ fa_wf str_eqb (e_varnames st) /\
    fa_wf str_eqb (e_cellvars st) /\ fa_wf keq (e_consts st).

  Definition enc_le (st st' : encstate C) : Prop :=
    fa_le str_eqb (e_names st) (e_names st') /\ fa_le str_eqb (e_varnames st) (e_varnames st') /\
    fa_le str_eqb (e_cellvars st) (e_cellvars st') /\ fa_le keq (e_consts st) (e_consts st').

  Let sle_refl := fa_le_refl str_eqb str_eqb_refl.
  Let kle_refl := fa_le_refl keq keq_refl.
  Let sle_trans := fa_le_trans str_eqb str_eqb_trans.
  Let kle_trans := fa_le_trans keq keq_trans.
  Let s_add := fa_add_sound str_eqb str_eqb_refl str_eqb_sym str_eqb_trans.
  Let k_add := fa_add_sound keq keq_refl keq_sym keq_trans.

  Ltac enc_tac := unfold enc_wf, enc_le; cbn [e_names e_varnames e_cellvars e_consts]; eauto 8.

  Lemma enc_le_refl st : enc_le st st.
  Proof. enc_tac. Qed.

  Lemma enc_le_trans s1 s2 s3 : enc_le s1 s2 -> enc_le s2 s3 -> enc_le s1 s3.
  Proof.
    intros (A1 & A2 & A3 & A4) (B1 & B2 & B3 & B4).
    exact (conj (sle_trans _ _ _ A1 B1) (conj (sle_trans _ _ _ A2 B2)
            (conj (sle_trans _ _ _ A3 B3) (kle_trans _ _ _ A4 B4)))).
  Qed.

  (* operand [a] was encoded as [v]: state-level reading *)
  Definition arg_ok (freevars : list str) (a : arg_ C) (v : Z) (st : encstate C) : Prop :=
    match a with
    | AName s ov => holds str_eqb (e_names st) (s, ov) v
    | AVarname s ov => holds str_eqb (e_varnames st) (s, ov) v
    | ACellvar s ov => holds str_eqb (e_cellvars st) (s, ov) v
    | AConst k ov => holds keq (e_consts st) (k, ov) v
    | AFreevar s => index_of str_eqb s freevars = Some v
    | _ => True
    end.

  Lemma arg_ok_le fv a v st st' : enc_le st st' -> arg_ok fv a v st -> arg_ok fv a v st'.
  Proof.
    intros (L1 & L2 & L3 & L4). destruct a; cbn [arg_ok]; auto.
    - apply (holds_le str_eqb str_eqb_trans); exact L1.
    - apply (holds_le str_eqb str_eqb_trans); exact L2.
    - apply (holds_le keq keq_trans); exact L4.
    - apply (holds_le str_eqb str_eqb_trans); exact L3.
  Qed.

  Lemma from_arg_sound a bt fv st v st' :
    enc_wf st -> from_arg keq is_str none_c a bt fv st = OK (v, st') ->
    enc_wf st' /\ enc_le st st' /\ arg_ok fv a v st'.
  Proof.
    intros (W1 & W2 & W3 & W4) H. destruct a; cbn [from_arg] in H.
    - inversion H; subst. split; [enc_tac|]. split; [apply enc_le_refl | exact I].
    - inversion H; subst. split; [enc_tac|]. split; [apply enc_le_refl | exact I].
    - destruct (fa_add str_eqb (e_names st) s ov) as [[i t]|] eqn:E; [|discriminate].
      inversion H; subst. destruct (s_add _ _ _ _ _ W1 E) as (W' & L' & Ho & Hv).
      split; [enc_tac|]. split; [enc_tac|].
      cbn [arg_ok e_names]. split; assumption.
    - destruct (fa_add str_eqb (e_varnames st) s ov) as [[i t]|] eqn:E; [|discriminate].
      inversion H; subst. destruct (s_add _ _ _ _ _ W2 E) as (W' & L' & Ho & Hv).
      split; [enc_tac|]. split; [enc_tac|].
      cbn [arg_ok e_varnames]. split; assumption.
    - match type of H with
      | match ?X with OK _ => _ | Err _ => _ end = _ => destruct X as [cs|] eqn:Ecs; [|discriminate]
      end.
      assert (Hcs : fa_wf keq cs /\ fa_le keq (e_consts st) cs).
      { match type of Ecs with (if ?b then _ else _) = _ => destruct b end.
        - split; [eapply (fa_setitem_wf keq keq_refl keq_sym keq_trans); eauto
                 | eapply (fa_setitem_le keq keq_refl keq_sym keq_trans); eauto].
        - inversion Ecs; subst. auto. }
      destruct Hcs as [Wc Lc].
      destruct (fa_add keq cs c ov) as [[i t]|] eqn:E; [|discriminate].
      inversion H; subst. destruct (k_add _ _ _ _ _ Wc E) as (W' & L' & Ho & Hv).
      split; [enc_tac|]. split; [enc_tac|].
      cbn [arg_ok e_consts]. split; assumption.
    - destruct (index_of str_eqb s fv) as [i|] eqn:E; [|discriminate].
      inversion H; subst. split; [enc_tac|]. split; [apply enc_le_refl | exact E].
    - destruct (fa_add str_eqb (e_cellvars st) s ov) as [[i t]|] eqn:E; [|discriminate].
      inversion H; subst. destruct (s_add _ _ _ _ _ W3 E) as (W' & L' & Ho & Hv).
      split; [enc_tac|]. split; [enc_tac|].
      cbn [arg_ok e_cellvars]. split; assumption.
    - inversion H; subst. split; [enc_tac|]. split; [apply enc_le_refl | exact I].
  Qed.

  Lemma first_args_sound bt fv : forall l st vals st',
    enc_wf st -> first_args keq is_str none_c l bt fv st = OK (vals, st') ->
    enc_wf st' /\ enc_le st st' /\ Forall2 (fun i v => arg_ok fv (i_arg i) v st') l vals.
  Proof.
    induction l as [|i r IH]; intros st vals st' W H; cbn [first_args] in H.
    - inversion H; subst. split; [exact W|]. split; [apply enc_le_refl | constructor].
    - destruct (from_arg keq is_str none_c (i_arg i) bt fv st) as [[v st1]|] eqn:Ea; [|discriminate].
      destruct (first_args keq is_str none_c r bt fv st1) as [[vs st2]|] eqn:Er; [|discriminate].
      inversion H; subst. destruct (from_arg_sound _ _ _ _ _ _ W Ea) as (W1 & L1 & A1).
      destruct (IH _ _ _ W1 Er) as (W2 & L2 & F2).
      split; [exact W2|]. split; [eapply enc_le_trans; eauto|].
      constructor; [|exact F2]. eapply arg_ok_le; eauto.
  Qed.

  Lemma add_additional_sound bt fv : forall l st st',
    enc_wf st -> add_additional keq is_str none_c l bt fv st = OK st' ->
    enc_wf st' /\ enc_le st st'.
  Proof.
    induction l as [|a r IH]; intros st st' W H; cbn [add_additional] in H.
    - inversion H; subst. split; [exact W | apply enc_le_refl].
    - destruct (from_arg keq is_str none_c a bt fv st) as [[v st1]|] eqn:Ea; [|discriminate].
      destruct (from_arg_sound _ _ _ _ _ _ W Ea) as (W1 & L1 & _).
      destruct (IH _ _ W1 H) as (W2 & L2). split; [exact W2 | eapply enc_le_trans; eauto].
  Qed.

  (* the additional operands are table entries too *)
  Lemma add_additional_args bt fv : forall l st st',
    enc_wf st -> add_additional keq is_str none_c l bt fv st = OK st' ->
    Forall (fun a => exists v, arg_ok fv a v st') l.
  Proof.
    induction l as [|a r IH]; intros st st' W H; cbn [add_additional] in H; [constructor|].
    destruct (from_arg keq is_str none_c a bt fv st) as [[v st1]|] eqn:Ea; [|discriminate].
    destruct (from_arg_sound _ _ _ _ _ _ W Ea) as (W1 & L1 & A1).
    constructor; [|eapply IH; eauto].
    exists v. eapply arg_ok_le; [|exact A1]. eapply add_additional_sound; eauto.
  Qed.

  Lemma enc_init_wf bt st0 : enc_init keq str_c bt = OK st0 -> enc_wf st0.
  Proof.
    pose proof (fa_wf_empty str_eqb) as We. pose proof (fa_wf_empty keq) as Wk.
    unfold enc_init. destruct bt as [f|].
    2:{ intros H; inversion H; subst. enc_tac. }
    match goal with
    | |- match ?X with OK _ => _ | Err _ => _ end = _ -> _ =>
        change X with (set_all str_eqb (args_to_varnames (fn_args f)) 0 fromargs_empty)
    end.
    destruct (set_all str_eqb (args_to_varnames (fn_args f)) 0 fromargs_empty) as [vn|] eqn:Ev;
      [|discriminate].
    destruct (set_all_wf str_eqb str_eqb_refl str_eqb_sym str_eqb_trans _ _ _ _ We Ev) as [Wv _].
    destruct (fn_doc f) as [d|].
    - destruct (fa_setitem keq fromargs_empty 0 (str_c d)) as [cs|] eqn:Ec; [|discriminate].
      intros H; inversion H; subst.
      assert (fa_wf keq cs) by (eapply (fa_setitem_wf keq keq_refl keq_sym keq_trans); eauto).
      enc_tac.
    - intros H; inversion H; subst. enc_tac.
  Qed.

  (* table-level reading *)
  Definition tbl_holds {T} (kq : T -> T -> bool) (tbl : list T) (s : T) (ov : option Z) (v : Z)
    : Prop :=
    0 <= v < zlen tbl /\ (forall j, ov = Some j -> v = j) /\
    exists s', nth_error tbl (Z.to_nat v) = Some s' /\ kq s' s = true.

  Definition arg_sound (freevars names varnames cellvars : list str) (consts : list C)
    (a : arg_ C) (v : Z) : Prop :=
    match a with
    | AName s ov => tbl_holds str_eqb names s ov v
    | AVarname s ov => tbl_holds str_eqb varnames s ov v
    | ACellvar s ov => tbl_holds str_eqb cellvars s ov v
    | AConst k ov => tbl_holds keq consts k ov v
    | AFreevar s => index_of str_eqb s freevars = Some v
    | _ => True
    end.

  Lemma holds_tbl {T} (kq : T -> T -> bool) (t : fromargs T) tbl s ov v :
    fa_to_tuple t = OK tbl -> holds kq t (s, ov) v -> tbl_holds kq tbl s ov v.
  Proof.
    intros Ht [Ho (s' & Hs & Es)]. destruct (to_tuple_sound _ _ Ht) as (_ & Hx & _).
    destruct (Hx _ _ Hs) as [Hr Hn]. split; [exact Hr|]. split; [exact Ho|]. eauto.
  Qed.

  Lemma arg_ok_sound fv st names varnames cellvars consts a v :
    fa_to_tuple (e_names st) = OK names -> fa_to_tuple (e_varnames st) = OK varnames ->
    fa_to_tuple (e_cellvars st) = OK cellvars -> fa_to_tuple (e_consts st) = OK consts ->
    arg_ok fv a v st -> arg_sound fv names varnames cellvars consts a v.
  Proof.
    intros T1 T2 T3 T4. destruct a; cbn [arg_ok arg_sound]; auto; now apply holds_tbl.
  Qed.

  (** ** encoder_tables_sound *)
  Theorem encoder_tables_sound :
    forall instrs additional bt freevars st0 vals st1 st2 names varnames cellvars consts,
    enc_init keq str_c bt = OK st0 ->
    first_args keq is_str none_c instrs bt freevars st0 = OK (vals, st1) ->
    add_additional keq is_str none_c additional bt freevars st1 = OK st2 ->
    fa_to_tuple (e_names st2) = OK names -> fa_to_tuple (e_varnames st2) = OK varnames ->
    fa_to_tuple (e_cellvars st2) = OK cellvars -> fa_to_tuple (e_consts st2) = OK consts ->
    Forall2 (fun i v => arg_sound freevars names varnames cellvars consts (i_arg i) v) instrs vals
    /\ Forall (fun a => exists v, arg_sound freevars names varnames cellvars consts a v) additional.
  Proof.
    intros instrs additional bt fv st0 vals st1 st2 names varnames cellvars consts
           Hi Hf Ha T1 T2 T3 T4.
    assert (W0 := enc_init_wf _ _ Hi).
    destruct (first_args_sound _ _ _ _ _ _ W0 Hf) as (W1 & _ & F).
    destruct (add_additional_sound _ _ _ _ _ W1 Ha) as (W2 & L2).
    split.
    - eapply Forall2_weaken; [|exact F]. intros i v Hv. cbv beta in Hv.
      eapply arg_ok_sound; eauto. eapply arg_ok_le; eauto.
    - assert (G := add_additional_args _ _ _ _ _ W1 Ha).
      eapply Forall_impl; [|exact G]. intros a [v Hv]. exists v. eapply arg_ok_sound; eauto.
  Qed.

  (* string tables hold the operand itself *)
  Lemma tbl_holds_str tbl s ov v :
    tbl_holds str_eqb tbl s ov v -> 0 <= v < zlen tbl /\ nth_error tbl (Z.to_nat v) = Some s.
  Proof.
    intros (Hr & _ & s' & Hn & Es). apply str_eqb_spec in Es. subst. auto.
  Qed.

  (* two operands encoded to the same constants index have the same key *)
  Lemma tbl_holds_same_key tbl a ova b ovb v :
    tbl_holds keq tbl a ova v -> tbl_holds keq tbl b ovb v -> keq a b = true.
  Proof.
    intros (_ & _ & x & Hx & Ex) (_ & _ & y & Hy & Ey). rewrite Hx in Hy. inversion Hy; subst y.
    eapply keq_trans; [|exact Ey]. now rewrite keq_sym.
  Qed.

  (* the assembled tables of blocks_to_bytes *)
  Theorem blocks_to_bytes_tables_sound :
    forall c blocks additional freevars bt code lm names varnames cellvars consts,
    blocks_to_bytes keq is_str none_c str_c c blocks additional freevars bt
      = OK (code, lm, names, varnames, cellvars, consts) ->
    exists st0 vals st1,
      enc_init keq str_c bt = OK st0 /\
      first_args keq is_str none_c (concat blocks) bt freevars st0 = OK (vals, st1) /\
      Forall2 (fun i v => arg_sound freevars names varnames cellvars consts (i_arg i) v)
              (concat blocks) vals /\
      Forall (fun a => exists v, arg_sound freevars names varnames cellvars consts a v) additional.
  Proof.
    intros c blocks additional fv bt code lm names varnames cellvars consts H.
    unfold blocks_to_bytes in H.
    destruct (enc_init keq str_c bt) as [st0|] eqn:Hi; [|discriminate].
    destruct (first_args keq is_str none_c (concat blocks) bt fv st0) as [[vals st1]|] eqn:Hf;
      [|discriminate].
    destruct (add_additional keq is_str none_c additional bt fv st1) as [st2|] eqn:Ha;
      [|discriminate].
    destruct (relax _ _ _ _) as [vals2|]; [|discriminate].
    destruct (assemble _ _ _ _ _) as [[code' lm']|]; [|discriminate].
    destruct (fa_to_tuple (e_names st2)) as [n|] eqn:T1; [|discriminate].
    destruct (fa_to_tuple (e_varnames st2)) as [vn|] eqn:T2; [|discriminate].
    destruct (fa_to_tuple (e_cellvars st2)) as [cv|] eqn:T3; [|discriminate].
    destruct (fa_to_tuple (e_consts st2)) as [k|] eqn:T4; [|discriminate].
    inversion H; subst.
    exists st0, vals, st1. split; [reflexivity|]. split; [exact Hf|].
    eapply encoder_tables_sound; eauto.
  Qed.
End EncSound.

Check tables_sound. Check to_tuple_sound. Check to_tuple_keys. Check fa_add_wf. Check fa_add_le.
Check add_all_sound. Check distinct_keys_not_merged. Check gaps_raise. Check override_gap_raises.
Check fa_add_clash. Check collisions_raise. Check encoder_tables_sound.
Check blocks_to_bytes_tables_sound.
Print Assumptions tables_sound.
Print Assumptions to_tuple_sound.
Print Assumptions distinct_keys_not_merged.
Print Assumptions gaps_raise.
Print Assumptions override_gap_raises.
Print Assumptions collisions_raise.
Print Assumptions encoder_tables_sound.
Print Assumptions blocks_to_bytes_tables_sound.
