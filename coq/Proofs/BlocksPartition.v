(* C13: the blocks produced by bytes_to_blocks are exactly the jump-target partition of the
   instruction sequence (Model/Blocks.v: parse_bytes, decode_instrs, sorted_set, split_blocks). *)
From Coq Require Import ZArith List Bool Lia ZifyBool Sorted.
From PCD Require Import Base.PyBase Base.Cfg Model.Flags Model.Args Model.Data Model.LineTable
  Model.Blocks.
Import ListNotations. Open Scope Z_scope.
Ltac Zify.zify_post_hook ::= Z.to_euclidean_division_equations.

(* ------------------------------------------------------------------ *)
(** * Strictly increasing lists of integers *)

Definition incr (l : list Z) : Prop := StronglySorted Z.lt l.

Lemma incr_nil : incr [].
Proof. constructor. Qed.

Lemma incr_cons x l : incr (x :: l) <-> (forall y, In y l -> x < y) /\ incr l.
Proof.
  unfold incr. split.
  - intros H. inversion H as [|a b Hs Hf]; subst. split; [|assumption].
    intros y Hy. rewrite Forall_forall in Hf. now apply Hf.
  - intros [Hlt Hs]. constructor; [assumption|]. now apply Forall_forall.
Qed.

(* the usual "each element is below its successor" formulation *)
Lemma incr_iff_adjacent l :
  incr l <-> forall n a b, nth_error l n = Some a -> nth_error l (S n) = Some b -> a < b.
Proof.
  induction l as [|x l IH].
  - split; [intros _ [|n] a b E; discriminate | intros _; apply incr_nil].
  - rewrite incr_cons, IH. split.
    + intros [Hlt Hadj] [|n] a b Ea Eb; cbn in Ea, Eb.
      * inversion Ea; subst. apply Hlt. destruct l; cbn in Eb; [discriminate|].
        inversion Eb; subst. now left.
      * eapply Hadj; eassumption.
    + intros H. assert (Hadj : forall n a b,
          nth_error l n = Some a -> nth_error l (S n) = Some b -> a < b).
      { intros n a b Ea Eb. apply (H (S n) a b); assumption. }
      split; [|assumption].
      intros y Hy. apply In_nth_error in Hy as [n Hn].
      revert y Hn. induction n as [|n IHn]; intros y Hn.
      * apply (H O x y); [reflexivity | exact Hn].
      * destruct (nth_error l n) as [z|] eqn:Ez.
        -- specialize (IHn z eq_refl). specialize (Hadj n z y Ez Hn). lia.
        -- apply nth_error_None in Ez. assert (nth_error l (S n) <> None) by congruence.
           apply nth_error_Some in H0. lia.
Qed.

Lemma incr_NoDup l : incr l -> NoDup l.
Proof.
  induction l as [|x l IH]; intros H; [constructor|].
  apply incr_cons in H as [Hlt Hs]. constructor; [|now apply IH].
  intros Hin. apply Hlt in Hin. lia.
Qed.

Lemma incr_filter f l : incr l -> incr (filter f l).
Proof.
  induction l as [|x l IH]; intros H; [exact H|].
  apply incr_cons in H as [Hlt Hs]. cbn [filter]. destruct (f x).
  - apply incr_cons. split; [|now apply IH].
    intros y Hy. apply filter_In in Hy as [Hy _]. now apply Hlt.
  - now apply IH.
Qed.

(* a strictly increasing list is determined by its set of elements *)
Lemma incr_ext l1 : forall l2, incr l1 -> incr l2 -> (forall x, In x l1 <-> In x l2) -> l1 = l2.
Proof.
  induction l1 as [|x l1 IH]; intros [|y l2] H1 H2 Hiff.
  - reflexivity.
  - exfalso. apply (proj2 (Hiff y)). now left.
  - exfalso. apply (proj1 (Hiff x)). now left.
  - apply incr_cons in H1 as [Hlt1 Hs1]. apply incr_cons in H2 as [Hlt2 Hs2].
    assert (Hxy : x = y).
    { assert (Hx : In x (y :: l2)) by (apply Hiff; now left).
      assert (Hy : In y (x :: l1)) by (apply Hiff; now left).
      destruct Hx as [Hx|Hx]; [congruence|]. destruct Hy as [Hy|Hy]; [congruence|].
      apply Hlt2 in Hx. apply Hlt1 in Hy. lia. }
    subst y. f_equal. apply IH; [assumption..|].
    intros z. split; intros Hz.
    + assert (Hz' : In z (x :: l2)) by (apply Hiff; now right).
      destruct Hz' as [Hz'|Hz']; [|assumption]. subst z. apply Hlt1 in Hz. lia.
    + assert (Hz' : In z (x :: l1)) by (apply Hiff; now right).
      destruct Hz' as [Hz'|Hz']; [|assumption]. subst z. apply Hlt2 in Hz. lia.
Qed.

(* ------------------------------------------------------------------ *)
(** * sorted_set = sorted(set(...)) *)

Lemma insert_uniq_In x l y : In y (insert_uniq x l) <-> y = x \/ In y l.
Proof.
  induction l as [|z l IH]; cbn [insert_uniq].
  - cbn. intuition.
  - destruct (x <? z) eqn:E1; [cbn; intuition|].
    destruct (x =? z) eqn:E2.
    + apply Z.eqb_eq in E2. subst z. cbn. intuition.
    + cbn [In]. rewrite IH. intuition.
Qed.

Lemma insert_uniq_incr x l : incr l -> incr (insert_uniq x l).
Proof.
  induction l as [|z l IH]; intros H; cbn [insert_uniq].
  - apply incr_cons. split; [intros y []|apply incr_nil].
  - destruct (x <? z) eqn:E1.
    + apply incr_cons. split; [|assumption].
      apply incr_cons in H as [Hlt Hs]. intros y [Hy|Hy]; [lia|]. apply Hlt in Hy. lia.
    + destruct (x =? z) eqn:E2; [assumption|].
      apply incr_cons in H as [Hlt Hs]. apply incr_cons. split; [|now apply IH].
      intros y Hy. apply insert_uniq_In in Hy as [Hy|Hy]; [lia|now apply Hlt].
Qed.

Lemma sorted_set_In l x : In x (sorted_set l) <-> In x l.
Proof.
  induction l as [|y l IH]; cbn [sorted_set fold_right]; [reflexivity|].
  fold (sorted_set l). rewrite insert_uniq_In, IH. cbn. intuition.
Qed.

Lemma sorted_set_incr l : incr (sorted_set l).
Proof.
  induction l as [|y l IH]; cbn [sorted_set fold_right]; [apply incr_nil|].
  fold (sorted_set l). now apply insert_uniq_incr.
Qed.

Lemma sorted_set_NoDup l : NoDup (sorted_set l).
Proof. apply incr_NoDup, sorted_set_incr. Qed.

(* sorted_set is canonical: it only depends on the set of elements *)
Lemma sorted_set_ext l1 l2 : (forall x, In x l1 <-> In x l2) -> sorted_set l1 = sorted_set l2.
Proof.
  intros H. apply incr_ext; try apply sorted_set_incr.
  intros x. now rewrite !sorted_set_In.
Qed.

(* ------------------------------------------------------------------ *)
(** * index_of and zmem *)

Lemma zmem_In x l : zmem x l = true <-> In x l.
Proof.
  unfold zmem. rewrite existsb_exists. split.
  - intros [y [Hy E]]. apply Z.eqb_eq in E. now subst.
  - intros H. exists x. split; [assumption|apply Z.eqb_refl].
Qed.

Lemma index_of_In t l :
  In t l -> exists k, index_of Z.eqb t l = Some k /\ 0 <= k < zlen l /\
                      nth_error l (Z.to_nat k) = Some t.
Proof.
  induction l as [|y l IH]; intros H; [destruct H|].
  cbn [index_of]. destruct (t =? y) eqn:E.
  - apply Z.eqb_eq in E. subst y. exists 0. unfold zlen. cbn [length]. repeat split; lia.
  - destruct H as [H|H]; [lia|]. destruct (IH H) as [k [Ek [Hk Hn]]]. rewrite Ek.
    exists (k + 1). unfold zlen in *. cbn [length]. split; [reflexivity|]. split; [lia|].
    replace (Z.to_nat (k + 1)) with (S (Z.to_nat k)) by lia. exact Hn.
Qed.

Lemma index_of_Some t l k :
  index_of Z.eqb t l = Some k -> 0 <= k < zlen l /\ nth_error l (Z.to_nat k) = Some t.
Proof.
  revert k. induction l as [|y l IH]; intros k H; [discriminate|].
  cbn [index_of] in H. destruct (t =? y) eqn:E.
  - inversion H; subst. apply Z.eqb_eq in E. subst y. unfold zlen. cbn [length]. split; [lia|].
    reflexivity.
  - destruct (index_of Z.eqb t l) as [j|]; [|discriminate]. inversion H; subst.
    destruct (IH j eq_refl) as [Hj Hn]. unfold zlen in *. cbn [length]. split; [lia|].
    replace (Z.to_nat (j + 1)) with (S (Z.to_nat j)) by lia. exact Hn.
Qed.

Lemma NoDup_nth_error_inj {A} (l : list A) i j x :
  NoDup l -> nth_error l i = Some x -> nth_error l j = Some x -> i = j.
Proof.
  intros Hnd Hi Hj. rewrite NoDup_nth_error in Hnd. apply Hnd; [|congruence].
  apply nth_error_Some. congruence.
Qed.

(* ------------------------------------------------------------------ *)
(** * split_blocks *)

Section Partition.
  Context {C : Type}.

  Definition offsets_increasing (ois : list (Z * instr_ C)) : Prop := incr (map fst ois).

  Definition targets_are_starts (ois : list (Z * instr_ C)) : Prop :=
    forall t, In t (jump_targets ois) -> In t (map fst ois).

  (* start offset of every block: the offset of its first instruction, computed from the
     block lengths *)
  Fixpoint block_starts (blocks : list (list (instr_ C))) (offs : list Z) : list Z :=
    match blocks with
    | [] => []
    | b :: r =>
        (match offs with o :: _ => o | [] => -1 end) :: block_starts r (skipn (length b) offs)
    end.

  Lemma block_starts_length blocks : forall offs, length (block_starts blocks offs) = length blocks.
  Proof.
    induction blocks as [|b r IH]; intros offs; cbn [block_starts length]; [reflexivity|].
    now rewrite IH.
  Qed.

  Lemma jump_targets_In (ois : list (Z * instr_ C)) t :
    In t (jump_targets ois) <-> exists o i rel, In (o, i) ois /\ i_arg i = AJump t rel.
  Proof.
    unfold jump_targets. rewrite in_flat_map. split.
    - intros [[o i] [Hin Ht]]. cbn [snd] in Ht. destruct (i_arg i) eqn:E; try (now destruct Ht).
      destruct Ht as [Ht|[]]. subst. exists o, i, relative. split; assumption.
    - intros [o [i [rel [Hin E]]]]. exists (o, i). split; [assumption|].
      cbn [snd]. rewrite E. now left.
  Qed.

  Lemma retarget_jump T (i : instr_ C) t rel :
    i_arg i = AJump t rel ->
    i_arg (retarget T i) =
      AJump (match index_of Z.eqb t T with Some k => k | None => -1 end) rel.
  Proof. intros E. unfold retarget. rewrite E. reflexivity. Qed.

  Lemma retarget_nonjump T (i : instr_ C) :
    (forall t rel, i_arg i <> AJump t rel) -> retarget T i = i.
  Proof.
    intros H. unfold retarget. destruct (i_arg i) eqn:E; try reflexivity.
    exfalso. eapply H. reflexivity.
  Qed.

  (* Generalised over the accumulator: [cur] is the reversed current block, [pre] the offsets
     of its instructions. *)
  Lemma split_blocks_gen T : forall (l : list (Z * instr_ C)) cur started pre,
    length pre = length cur ->
    (started = true -> cur <> []) ->
    (started = false ->
       cur = [] /\ (l = [] \/ exists o i r, l = (o, i) :: r /\ zmem o T = true)) ->
    exists blocks,
      split_blocks T l cur started = OK blocks /\
      concat blocks = rev cur ++ map (retarget T) (map snd l) /\
      Forall (fun b => b <> []) blocks /\
      block_starts blocks (pre ++ map fst l) =
        (if started then firstn 1 pre else []) ++ filter (fun o => zmem o T) (map fst l).
  Proof.
    induction l as [|[o i] r IH]; intros cur started pre Hlen Hst Hnst.
    - cbn [split_blocks map filter]. destruct started.
      + exists [rev cur]. split; [reflexivity|]. cbn [concat]. split; [reflexivity|].
        specialize (Hst eq_refl). split.
        * constructor; [|constructor]. intros E. apply Hst.
          apply (f_equal (@rev _)) in E. rewrite rev_involutive in E. exact E.
        * cbn [block_starts]. rewrite !app_nil_r.
          destruct pre as [|p pre]; [destruct cur; [congruence|discriminate]|]. reflexivity.
      + exists []. destruct (Hnst eq_refl) as [-> _]. repeat split; constructor.
    - cbn [split_blocks map fst snd filter]. destruct (zmem o T) eqn:Eo.
      + destruct (IH [retarget T i] true [o]) as [rest [Es [Ec [Hne Hbs]]]];
          [reflexivity | discriminate | discriminate |].
        rewrite Es. cbn [rev app firstn] in Ec, Hbs. destruct started.
        * exists (rev cur :: rest). split; [reflexivity|]. split; [|split].
          -- cbn [concat]. now rewrite Ec.
          -- specialize (Hst eq_refl). constructor; [|assumption]. intros E. apply Hst.
             apply (f_equal (@rev _)) in E. rewrite rev_involutive in E. exact E.
          -- cbn [block_starts]. rewrite rev_length, <- Hlen.
             rewrite skipn_app, skipn_all, Nat.sub_diag. cbn [skipn app].
             rewrite Hbs. specialize (Hst eq_refl).
             destruct pre as [|p pre]; [destruct cur; [congruence|discriminate]|]. reflexivity.
        * exists rest. destruct (Hnst eq_refl) as [-> _].
          destruct pre; [|discriminate]. cbn [rev app]. repeat split; assumption.
      + destruct started.
        * destruct (IH (retarget T i :: cur) true (pre ++ [o])) as [blocks [Es [Ec [Hne Hbs]]]].
          -- rewrite app_length. cbn [length]. lia.
          -- discriminate.
          -- discriminate.
          -- exists blocks. split; [exact Es|]. split; [|split; [assumption|]].
             ++ rewrite Ec. cbn [rev]. now rewrite <- app_assoc.
             ++ rewrite <- app_assoc in Hbs. cbn [app] in Hbs. rewrite Hbs. f_equal.
                specialize (Hst eq_refl).
                destruct pre as [|p pre]; [destruct cur; [congruence|discriminate]|]. reflexivity.
        * exfalso. destruct (Hnst eq_refl) as [_ [E|[o' [i' [r' [E Ez]]]]]]; [discriminate|].
          inversion E; subst. congruence.
  Qed.

  Lemma filter_targets_eq (offs T : list Z) :
    incr offs -> incr T -> (forall t, In t T -> In t offs) ->
    filter (fun o => zmem o T) offs = T.
  Proof.
    intros Ho HT Hsub. apply incr_ext; [now apply incr_filter | assumption |].
    intros x. rewrite filter_In, zmem_In. split; [tauto|]. intros H. split; [now apply Hsub|assumption].
  Qed.

  (* the partition theorem for an arbitrary strictly increasing target list contained in the
     instruction offsets and containing the first offset *)
  Lemma split_blocks_partition_gen (T : list Z) (ois : list (Z * instr_ C)) :
    offsets_increasing ois -> incr T -> (forall t, In t T -> In t (map fst ois)) ->
    (ois = [] \/ exists o i r, ois = (o, i) :: r /\ In o T) ->
    exists blocks,
      split_blocks T ois [] false = OK blocks /\
      concat blocks = map (retarget T) (map snd ois) /\
      Forall (fun b => b <> []) blocks /\
      block_starts blocks (map fst ois) = T.
  Proof.
    intros Hinc HT Hsub Hhd.
    destruct (split_blocks_gen T ois [] false []) as [blocks [Es [Ec [Hne Hbs]]]].
    - reflexivity.
    - discriminate.
    - intros _. split; [reflexivity|]. destruct Hhd as [E|[o [i [r [E Ho]]]]]; [now left|].
      right. exists o, i, r. split; [assumption|]. now apply zmem_In.
    - exists blocks. cbn [rev app] in Ec, Hbs. repeat split; try assumption.
      rewrite Hbs. now apply filter_targets_eq.
  Qed.
End Partition.

(* ------------------------------------------------------------------ *)
(** * parse_bytes: the offsets of the parsed instructions *)

Definition p_first (p : pinstr) : Z := let '(_, _, _, f, _) := p in f.
Definition p_next (p : pinstr) : Z := let '(_, _, _, _, n) := p in n.

(* the instructions tile the byte string: each one begins where the previous one ended *)
Fixpoint chained (start : Z) (ps : list pinstr) : Prop :=
  match ps with
  | [] => True
  | p :: r => p_first p = start /\ p_first p < p_next p /\ chained (p_next p) r
  end.

Lemma parse_bytes_chained_len c : forall (m : nat) b i n_args arg ps,
  (length b <= m)%nat -> 0 <= n_args ->
  parse_bytes c b i n_args arg = OK ps -> chained (i - 2 * n_args) ps.
Proof.
  induction m as [|m IH]; intros b i n_args arg ps Hlen Hn H.
  - destruct b; [|cbn [length] in Hlen; lia]. cbn [parse_bytes] in H. inversion H. exact I.
  - destruct b as [|op [|byte r]].
    + cbn [parse_bytes] in H. inversion H. exact I.
    + cbn [parse_bytes] in H. discriminate.
    + cbn [parse_bytes] in H. cbn [length] in Hlen.
      destruct (op =? cfg_extended_arg c) eqn:Eop.
      * apply IH in H; [|lia|lia].
        replace (i + 2 - 2 * (n_args + 1)) with (i - 2 * n_args) in H by lia. exact H.
      * destruct (parse_bytes c r (i + 2) 0 0) as [rest|e] eqn:Er; [|discriminate].
        inversion H; subst ps. cbn [chained p_first p_next].
        split; [lia|]. split; [lia|].
        apply IH in Er; [|lia|lia]. replace (i + 2 - 2 * 0) with (i + 2) in Er by lia. exact Er.
Qed.

Lemma parse_bytes_chained c b i n_args arg ps :
  0 <= n_args -> parse_bytes c b i n_args arg = OK ps -> chained (i - 2 * n_args) ps.
Proof. intros Hn H. eapply parse_bytes_chained_len; eauto. Qed.

Lemma chained_lower s ps : chained s ps -> forall y, In y (map p_first ps) -> s <= y.
Proof.
  revert s. induction ps as [|p r IH]; intros s H y Hy; [destruct Hy|].
  cbn [chained] in H. destruct H as [Hf [Hlt Hr]]. cbn [map] in Hy. destruct Hy as [Hy|Hy]; [lia|].
  specialize (IH _ Hr y Hy). lia.
Qed.

Lemma chained_incr s ps : chained s ps -> incr (map p_first ps).
Proof.
  revert s. induction ps as [|p r IH]; intros s H; [apply incr_nil|].
  cbn [chained] in H. destruct H as [Hf [Hlt Hr]]. cbn [map]. apply incr_cons.
  split; [|eapply IH; eassumption].
  intros y Hy. pose proof (chained_lower _ _ Hr y Hy). lia.
Qed.

Lemma chained_adjacent s ps : chained s ps ->
  forall n p q, nth_error ps n = Some p -> nth_error ps (S n) = Some q -> p_next p = p_first q.
Proof.
  revert s. induction ps as [|x r IH]; intros s H n p q Hp Hq; [destruct n; discriminate|].
  cbn [chained] in H. destruct H as [Hf [Hlt Hr]]. destruct n as [|n].
  - cbn in Hp. inversion Hp; subst x. destruct r as [|y r]; [discriminate|].
    cbn in Hq. inversion Hq; subst y. cbn [chained] in Hr. destruct Hr as [Hr _]. now symmetry.
  - eapply IH; eassumption.
Qed.

Lemma chained_sizes s ps : chained s ps -> Forall (fun p => p_first p < p_next p) ps.
Proof.
  revert s. induction ps as [|x r IH]; intros s H; [constructor|].
  cbn [chained] in H. destruct H as [Hf [Hlt Hr]]. constructor; [assumption|eapply IH; eassumption].
Qed.

(* generalised over the accumulators: the next emitted instruction begins at [i - 2*n_args] *)
Lemma parse_bytes_offsets_gen c b i n_args arg ps :
  0 <= n_args -> parse_bytes c b i n_args arg = OK ps ->
  incr (map p_first ps) /\
  (forall p r, ps = p :: r -> p_first p = i - 2 * n_args) /\
  (forall n p q, nth_error ps n = Some p -> nth_error ps (S n) = Some q -> p_next p = p_first q) /\
  Forall (fun p => p_first p < p_next p) ps.
Proof.
  intros Hn H. pose proof (parse_bytes_chained _ _ _ _ _ _ Hn H) as Hc.
  split; [eapply chained_incr; eassumption|].
  split; [|split; [eapply chained_adjacent; eassumption | eapply chained_sizes; eassumption]].
  intros p r ->. cbn [chained] in Hc. tauto.
Qed.

Lemma parse_bytes_offsets c b ps :
  parse_bytes c b 0 0 0 = OK ps ->
  incr (map p_first ps) /\
  (forall p r, ps = p :: r -> p_first p = 0) /\
  (forall n p q, nth_error ps n = Some p -> nth_error ps (S n) = Some q -> p_next p = p_first q) /\
  Forall (fun p => p_first p < p_next p) ps.
Proof.
  intros H. apply parse_bytes_offsets_gen in H; [|lia]. exact H.
Qed.

(* ------------------------------------------------------------------ *)
(** * decode_instrs keeps the offsets *)

Lemma decode_instrs_offsets {C} (keq : C -> C -> bool) c : forall ps freevars lm st ois lm' st',
  decode_instrs keq c ps freevars lm st = OK (ois, lm', st') ->
  map fst ois = map p_first ps.
Proof.
  induction ps as [|[[[[op a] n] off] nx] r IH]; intros freevars lm st ois lm' st' H.
  - cbn [decode_instrs] in H. inversion H. reflexivity.
  - cbn [decode_instrs] in H.
    destruct (to_arg keq c op a nx freevars st) as [[parg st1]|e]; [|discriminate].
    destruct (oget (lm_lines lm) off) as [line|]; [|discriminate].
    match type of H with
    | match ?X with _ => _ end = _ => destruct X as [[[rest lm1] st2]|e] eqn:Er; [|discriminate]
    end.
    inversion H; subst. cbn [map fst p_first]. f_equal. eapply IH. exact Er.
Qed.

Lemma decode_instrs_length {C} (keq : C -> C -> bool) c ps freevars lm st ois lm' st' :
  decode_instrs keq c ps freevars lm st = OK (ois, lm', st') -> length ois = length ps.
Proof.
  intros H. apply decode_instrs_offsets in H.
  rewrite <- (map_length fst ois), H. apply map_length.
Qed.

(* ------------------------------------------------------------------ *)
(** * The hypotheses are needed (checked by computation) *)

Section Counterexamples.
  Let nop : instr_ unit := mkInstr 9 (ANoArg 0) None None [].
  Let jmp (t : Z) : instr_ unit := mkInstr 113 (AJump t false) None None [].

  (* no instruction at all: one target (0) but no block *)
  Example empty_code_has_no_block :
    @split_blocks unit (sorted_set (0 :: jump_targets (@nil (Z * instr_ unit)))) [] [] false
      = OK []
    /\ sorted_set (0 :: jump_targets (@nil (Z * instr_ unit))) = [0].
  Proof. vm_compute. split; reflexivity. Qed.

  (* a jump into the middle of / past the instructions: two targets, one block, and the jump's
     new index 1 designates no block *)
  Example stray_target_breaks_partition :
    let ois := [(0, jmp 3); (2, nop)] in
    let T := sorted_set (0 :: jump_targets ois) in
    T = [0; 3] /\
    split_blocks T ois [] false =
      OK [[mkInstr 113 (AJump 1 false) None None []; nop]].
  Proof. vm_compute. split; reflexivity. Qed.

  (* first instruction not at offset 0: the model raises, like the library (NameError) *)
  Example first_offset_must_be_zero :
    split_blocks (sorted_set (0 :: jump_targets [(2, nop)])) [(2, nop)] [] false = Err NameError.
  Proof. vm_compute. reflexivity. Qed.
End Counterexamples.

(* ------------------------------------------------------------------ *)
(** * Main statements *)

Section Main.
  Context {C : Type}.

  Lemma first_zero_offsets_nonneg (ois : list (Z * instr_ C)) :
    offsets_increasing ois -> (exists i r, ois = (0, i) :: r) ->
    forall y, In y (map fst ois) -> 0 <= y.
  Proof.
    intros Hinc [i [r ->]] y Hy. unfold offsets_increasing in Hinc. cbn [map fst] in *.
    apply incr_cons in Hinc as [Hlt _]. destruct Hy as [Hy|Hy]; [lia|]. apply Hlt in Hy. lia.
  Qed.

  Lemma targets_subset_offsets (ois : list (Z * instr_ C)) :
    (exists i r, ois = (0, i) :: r) -> targets_are_starts ois ->
    forall t, In t (sorted_set (0 :: jump_targets ois)) -> In t (map fst ois).
  Proof.
    intros [i [r E]] Hts t Ht. apply -> sorted_set_In in Ht. destruct Ht as [Ht|Ht].
    - subst t. rewrite E. now left.
    - now apply Hts.
  Qed.

  (** C13 (a)-(d) for the second loop of bytes_to_blocks *)
  Theorem split_blocks_partition : forall (ois : list (Z * instr_ C)),
    ois <> [] -> offsets_increasing ois -> (exists i r, ois = (0, i) :: r) ->
    targets_are_starts ois ->
    let T := sorted_set (0 :: jump_targets ois) in
    exists blocks,
      split_blocks T ois [] false = OK blocks /\
      concat blocks = map (retarget T) (map snd ois) /\
      Forall (fun b => b <> []) blocks /\
      block_starts blocks (map fst ois) = T /\
      zlen blocks = zlen T /\
      (forall o i t rel, In (o, i) ois -> i_arg i = AJump t rel ->
         exists k, i_arg (retarget T i) = AJump k rel /\ 0 <= k < zlen blocks /\
                   nth_error (block_starts blocks (map fst ois)) (Z.to_nat k) = Some t).
  Proof.
    intros ois _ Hinc Hhd Hts T.
    destruct (split_blocks_partition_gen T ois) as [blocks [Es [Ec [Hne Hbs]]]].
    - exact Hinc.
    - apply sorted_set_incr.
    - now apply targets_subset_offsets.
    - right. destruct Hhd as [i [r E]]. exists 0, i, r. split; [exact E|].
      apply sorted_set_In. now left.
    - assert (Hlen : zlen blocks = zlen T).
      { unfold zlen. rewrite <- (block_starts_length blocks (map fst ois)), Hbs. reflexivity. }
      exists blocks. repeat split; try assumption.
      intros o i t rel Hin Ei.
      assert (HtT : In t T).
      { apply sorted_set_In. right. apply jump_targets_In. eauto. }
      destruct (index_of_In t T HtT) as [k [Ek [Hk Hn]]].
      exists k. rewrite (retarget_jump T i t rel Ei), Ek, Hbs, Hlen. repeat split; try assumption; lia.
  Qed.

  (** C13 (d), converse direction: every block after the first is the target of some jump,
      and 0 designates the first block *)
  Theorem split_blocks_later_blocks_targeted : forall (ois : list (Z * instr_ C)) blocks,
    offsets_increasing ois -> (exists i r, ois = (0, i) :: r) -> targets_are_starts ois ->
    let T := sorted_set (0 :: jump_targets ois) in
    split_blocks T ois [] false = OK blocks ->
    nth_error (block_starts blocks (map fst ois)) 0 = Some 0 /\
    forall k, 0 < k < zlen blocks ->
      exists o i t rel, In (o, i) ois /\ i_arg i = AJump t rel /\
                        i_arg (retarget T i) = AJump k rel /\
                        nth_error (block_starts blocks (map fst ois)) (Z.to_nat k) = Some t.
  Proof.
    intros ois blocks Hinc Hhd Hts T Es.
    assert (Hne : ois <> []) by (destruct Hhd as [i [r ->]]; discriminate).
    destruct (split_blocks_partition ois Hne Hinc Hhd Hts) as [blocks' [Es' [_ [_ [Hbs [Hlen _]]]]]].
    fold T in Es', Hbs, Hlen. rewrite Es in Es'. inversion Es'; subst blocks'. clear Es'.
    rewrite Hbs, Hlen.
    assert (HT0 : nth_error T 0 = Some 0).
    { assert (H0 : In 0 T) by (apply sorted_set_In; now left).
      assert (Hpos : forall y, In y T -> 0 <= y).
      { intros y Hy. apply (first_zero_offsets_nonneg ois Hinc Hhd).
        now apply targets_subset_offsets. }
      pose proof (sorted_set_incr (0 :: jump_targets ois)) as HiT. fold T in HiT.
      destruct T as [|x T']; [destruct H0|]. apply incr_cons in HiT as [Hlt _].
      cbn [nth_error]. f_equal. destruct H0 as [H0|H0]; [assumption|].
      apply Hlt in H0. specialize (Hpos x (or_introl eq_refl)). lia. }
    split; [exact HT0|].
    intros k Hk.
    destruct (nth_error T (Z.to_nat k)) as [t|] eqn:Et.
    2:{ apply nth_error_None in Et. unfold zlen in Hk. lia. }
    assert (HtT : In t T) by (eapply nth_error_In; eassumption).
    pose proof (sorted_set_NoDup (0 :: jump_targets ois)) as Hnd. fold T in Hnd.
    assert (Ht0 : t <> 0).
    { intros ->. pose proof (NoDup_nth_error_inj T _ _ _ Hnd Et HT0). lia. }
    pose proof (proj1 (sorted_set_In _ _) HtT) as HtJ. destruct HtJ as [HtJ|HtJ]; [congruence|].
    apply jump_targets_In in HtJ as [o [i [rel [Hin Ei]]]].
    exists o, i, t, rel. split; [assumption|]. split; [assumption|]. split; [|reflexivity].
    rewrite (retarget_jump T i t rel Ei).
    destruct (index_of_In t T HtT) as [k' [Ek' [Hk' Hn']]]. rewrite Ek'.
    pose proof (NoDup_nth_error_inj T _ _ _ Hnd Hn' Et). do 2 f_equal. lia.
  Qed.

  (** The premises hold for the instruction list bytes_to_blocks decodes, and its result is the
      result of split_blocks: C13 for bytes_to_blocks.  [targets_are_starts] is the one premise
      that does not follow from decoding (a jump may point between or past the instructions). *)
  Theorem bytes_to_blocks_partition :
    forall (keq : C -> C -> bool) c b lm names varnames freevars cellvars constants bt a
           blocks addl lm',
    bytes_to_blocks keq c b lm names varnames freevars cellvars constants bt a
      = OK (blocks, addl, lm') ->
    exists ps ois st1 st2,
      parse_bytes c b 0 0 0 = OK ps /\
      decode_instrs keq c ps freevars lm st1 = OK (ois, lm', st2) /\
      map fst ois = map p_first ps /\
      offsets_increasing ois /\
      (ois <> [] -> exists i r, ois = (0, i) :: r) /\
      let T := sorted_set (0 :: jump_targets ois) in
      split_blocks T ois [] false = OK blocks /\
      (ois <> [] -> targets_are_starts ois ->
         concat blocks = map (retarget T) (map snd ois) /\
         Forall (fun b => b <> []) blocks /\
         block_starts blocks (map fst ois) = T /\
         zlen blocks = zlen T /\
         (forall o i t rel, In (o, i) ois -> i_arg i = AJump t rel ->
            exists k, i_arg (retarget T i) = AJump k rel /\ 0 <= k < zlen blocks /\
                      nth_error (block_starts blocks (map fst ois)) (Z.to_nat k) = Some t) /\
         (forall k, 0 < k < zlen blocks ->
            exists o i t rel, In (o, i) ois /\ i_arg i = AJump t rel /\
                              i_arg (retarget T i) = AJump k rel /\
                              nth_error (block_starts blocks (map fst ois)) (Z.to_nat k) = Some t)).
  Proof.
    intros keq c b lm names varnames freevars cellvars constants bt a blocks addl lm' H.
    unfold bytes_to_blocks in H.
    match type of H with
    | match ?X with _ => _ end = _ => destruct X as [st1|e] eqn:Est; [|discriminate]
    end.
    destruct (parse_bytes c b 0 0 0) as [ps|e] eqn:Ep; [|discriminate].
    destruct (decode_instrs keq c ps freevars lm st1) as [[[ois lm0] st2]|e] eqn:Ed; [|discriminate].
    destruct (split_blocks (sorted_set (0 :: jump_targets ois)) ois [] false)
      as [blocks0|e] eqn:Es; [|discriminate].
    destruct (additional_args str_eqb (d_names st2)); [|discriminate].
    destruct (additional_args str_eqb (d_varnames st2)); [|discriminate].
    destruct (additional_args str_eqb (d_cellvars st2)); [|discriminate].
    destruct (additional_args keq (d_consts st2)); [|discriminate].
    inversion H; subst blocks0 lm0. clear H.
    pose proof (decode_instrs_offsets _ _ _ _ _ _ _ _ _ Ed) as Hoff.
    destruct (parse_bytes_offsets _ _ _ Ep) as [Hinc [Hfirst _]].
    assert (Hoi : offsets_increasing ois) by (unfold offsets_increasing; now rewrite Hoff).
    assert (Hhd : ois <> [] -> exists i r, ois = (0, i) :: r).
    { intros Hne. destruct ois as [|[o i] r]; [congruence|].
      destruct ps as [|p ps']; [discriminate|]. cbn [map fst] in Hoff. injection Hoff as Ho _.
      rewrite (Hfirst p ps' eq_refl) in Ho. subst o. eauto. }
    exists ps, ois, st1, st2. split; [reflexivity|]. split; [exact Ed|]. split; [exact Hoff|].
    split; [exact Hoi|]. split; [exact Hhd|]. cbv zeta. split; [exact Es|].
    intros Hne Hts. specialize (Hhd Hne).
    destruct (split_blocks_partition ois Hne Hoi Hhd Hts) as [blocks' [Es' [Hc [Hn [Hbs [Hlen Hj]]]]]].
    rewrite Es in Es'. inversion Es'; subst blocks'. clear Es'.
    destruct (split_blocks_later_blocks_targeted ois blocks Hoi Hhd Hts Es) as [_ Hlater].
    repeat split; assumption.
  Qed.
End Main.

Print Assumptions split_blocks_partition.
Print Assumptions split_blocks_later_blocks_targeted.
Print Assumptions bytes_to_blocks_partition.
Print Assumptions parse_bytes_offsets_gen.
Print Assumptions decode_instrs_offsets.
