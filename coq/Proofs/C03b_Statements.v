(* Statements for C03 (K2), part 2: what CPython's disassembler reads in the code that
   blocks_to_bytes emits for well-formed data without private override fields. *)
From PCD Require Import Base.PyBase Base.Cfg Model.Flags Model.Args Model.Data Model.Consts
  Model.LineTable Model.Blocks Model.CodeData Spec.Lnotab Spec.Dis Model.ViewSer
  Proofs.C02_Statements Proofs.C01_Statements Proofs.C03_Statements.

Section DataWf.
  Context {C : Type}.

  Definition in_no_class (c : cfg) (op : Z) : bool :=
    negb (zmem op (cfg_hasjabs c) || zmem op (cfg_hasjrel c) || zmem op (cfg_hasname c)
          || zmem op (cfg_haslocal c) || zmem op (cfg_hasfree c) || zmem op (cfg_hasconst c)).

  (* the operand kind fits the opcode, no private override fields, small literal operands *)
  Definition instr_fits (c : cfg) (i : instr_ C) : bool :=
    let op := i_name i in
    zmem op (cfg_opcodes c) && negb (op =? cfg_extended_arg c) && (0 <=? op) && (op <? 256)
    && negb (opt_is_some (i_nargs i))
    && match i_lineoffs i with [] => true | _ => false end
    && match i_arg i with
       | AJump _ false => zmem op (cfg_hasjabs c)
       | AJump _ true => zmem op (cfg_hasjrel c)
       | AName _ ov => zmem op (cfg_hasname c) && negb (opt_is_some ov)
       | AVarname _ ov => zmem op (cfg_haslocal c) && negb (opt_is_some ov)
       | ACellvar _ ov => zmem op (cfg_hasfree c) && negb (opt_is_some ov)
       | AFreevar _ => zmem op (cfg_hasfree c)
       | AConst _ ov => zmem op (cfg_hasconst c) && negb (opt_is_some ov)
       | ANoArg z => (op <? cfg_have_argument c) && (0 <=? z) && (z <? 256)
       | AInt z => (cfg_have_argument c <=? op) && in_no_class c op && (0 <=? z) && (z <? 2147483648)
       end.

  (* jumps designate existing blocks; relative jumps go forward *)
  Fixpoint jumps_ok (nblocks : Z) (blocks : list (list (instr_ C))) (bi : Z) : bool :=
    match blocks with
    | [] => true
    | b :: r =>
        forallb (fun i => match i_arg i with
                          | AJump t rel => (0 <=? t) && (t <? nblocks) && (if rel then bi <? t else true)
                          | _ => true
                          end) b
        && jumps_ok nblocks r (bi + 1)
    end.

  Definition blocks_wf (c : cfg) (blocks : list (list (instr_ C))) : bool :=
    forallb (fun b => match b with [] => false | _ => true end) blocks
    && forallb (forallb (instr_fits c)) blocks
    && jumps_ok (zlen blocks) blocks 0
    && negb (match blocks with [] => true | _ => false end).
End DataWf.

(* operands as the disassembler resolves them vs the data: constants up to key equality (the table
   keeps the first of several key-equal values) *)
Definition val_match {C} (keq : C -> C -> bool) (x y : dval C) : bool :=
  match x, y with
  | DNoArg, DNoArg => true
  | DInt a, DInt b => a =? b
  | DName a, DName b | DLocal a, DLocal b | DCell a, DCell b | DFree a, DFree b => str_eqb a b
  | DConst a, DConst b => keq b a
  | DJump t r, DJump t' r' => (t =? t') && Bool.eqb r r'
  | _, _ => false
  end.

(* layout of the emitted instructions: (first offset, units, line) *)
Fixpoint layout_of {C} (instrs : list (instr_ C)) (vals : list Z) (o : Z) : list layout_item :=
  match instrs, vals with
  | i :: r, v :: vs => let n := n_units (i_nargs i) v in (o, n, i_line i) :: layout_of r vs (o + 2 * n)
  | _, _ => []
  end.

(* K2, code part: the emitted code is well-shaped and dis reads back the data's instruction stream *)
Definition S_K2_code : Prop :=
  forall (C : Type) (keq : C -> C -> bool) is_str none_c str_c,
  (forall x, keq x x = true) -> (forall x y, keq x y = keq y x) ->
  (forall x y z, keq x y = true -> keq y z = true -> keq x z = true) ->
  forall c (blocks : list (list (instr_ C))) freevars bt code lm names varnames cellvars consts,
  cfg_ops_wf c = true -> blocks_wf c blocks = true -> nodup_str freevars = true ->
  blocks_to_bytes keq is_str none_c str_c c blocks [] freevars bt
    = OK (code, lm, names, varnames, cellvars, consts) ->
  zlen code < 1073741824 ->
  code_ok c code = true /\
  (exists vals, length vals = length (concat blocks) /\
                lm = {| lm_lines := lines_of_layout (layout_of (concat blocks) vals 0); lm_adds := [] |} /\
                layout_ok (layout_of (concat blocks) vals 0) 0 = true /\
                map (fun x : layout_item => fst (fst x)) (layout_of (concat blocks) vals 0)
                = map (fun x : Z * Z * dval C => fst (fst x))
                      (dis_fold c names varnames freevars cellvars consts (dis_unpack c code 0 0) None)) /\
  forall table first,
    list_eqb (fun (x y : vinstr C) => (v_op x =? v_op y) && val_match keq (v_val x) (v_val y))
             (data_view blocks)
             (dis_view c code names varnames freevars cellvars consts table first) = true.
