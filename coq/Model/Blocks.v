(* Model of code_data/_blocks.py: _parse_bytes, _instrsize, ToArgs, FromArgs, to_arg, from_arg,
   bytes_to_blocks, blocks_to_bytes, blocks_to_constants.  Generic in the type C of constants
   (the decoder uses [const]; the encoder uses constants paired with their encoded form). *)
From PCD Require Import Base.PyBase Base.Cfg Model.Flags Model.Args Model.Data Model.LineTable.

(** * _parse_bytes and _instrsize *)

Definition c_int_upper_limit : Z := 2147483647.
Definition c_int_length : Z := 4294967296.

(* opcode, arg, n_args, first offset, next offset *)
Definition pinstr := (Z * Z * Z * Z * Z)%type.

Fixpoint parse_bytes (c : cfg) (b : list Z) (i n_args arg : Z) : res (list pinstr) :=
  match b with
  | [] => OK []
  | [_] => Err IndexError
  | op :: byte :: r =>
      let arg1 := Z.lor arg byte in
      let n1 := n_args + 1 in
      if op =? cfg_extended_arg c then
        let a2 := Z.shiftl arg1 8 in
        parse_bytes c r (i + 2) n1 (if a2 >? c_int_upper_limit then a2 - c_int_length else a2)
      else
        match parse_bytes c r (i + 2) 0 0 with
        | OK rest => OK ((op, arg1, n1, i - (n1 - 1) * 2, i + 2) :: rest)
        | Err e => Err e
        end
  end.

Definition instrsize (a : Z) : Z :=
  if a <? 0 then 4
  else if a <=? 255 then 1 else if a <=? 65535 then 2 else if a <=? 16777215 then 3 else 4.

(* [override or _instrsize(arg)]: an override of 0 is falsy *)
Definition n_units (ov : option Z) (a : Z) : Z :=
  match ov with
  | Some n => if n =? 0 then instrsize a else n
  | None => instrsize a
  end.

(* python indexing of a tuple: negative indices count from the end *)
Definition py_index {A} (l : list A) (i : Z) : option A :=
  if i <? 0 then (if - i <=? zlen l then znth l (zlen l + i) else None) else znth l i.

(** * ToArgs *)

Section Tables.
  Context {T : Type} (keq : T -> T -> bool).

  Record toargs := mkToArgs {
    ta_args : list T;
    ta_order : odict Z;             (* _index_to_order *)
    ta_keys : list (T * Z);         (* _key_to_index: first index found for each key *)
    ta_dups : list T                (* _duplicate_keys *)
  }.
  Definition toargs_init (args : list T) (preset : Z) : toargs :=
    {| ta_args := args;
       ta_order := map (fun i => (i, i)) (map Z.of_nat (seq 0 (Z.to_nat preset)));
       ta_keys := []; ta_dups := [] |}.

  Fixpoint key_lookup (keys : list (T * Z)) (k : T) : option Z :=
    match keys with
    | [] => None
    | (k', i) :: r => if keq k k' then Some i else key_lookup r k
    end.
  Definition key_mem (ks : list T) (k : T) : bool := existsb (keq k) ks.

  Definition found_index (st : toargs) (index : Z) : res (T * option Z * toargs) :=
    match py_index (ta_args st) index with
    | None => Err IndexError
    | Some a =>
        let st1 :=
          if omem (ta_order st) index then st
          else
            let order' := oset (ta_order st) index (zlen (ta_order st)) in
            match key_lookup (ta_keys st) a with
            | Some first =>
                {| ta_args := ta_args st; ta_order := order'; ta_keys := ta_keys st;
                   ta_dups := if first =? index then ta_dups st
                              else if key_mem (ta_dups st) a then ta_dups st else a :: ta_dups st |}
            | None =>
                {| ta_args := ta_args st; ta_order := order';
                   ta_keys := ta_keys st ++ [(a, index)]; ta_dups := ta_dups st |}
            end in
        let wrong :=
          negb (match oget (ta_order st1) index with Some o => o =? index | None => false end)
          || key_mem (ta_dups st1) a in
        OK (a, (if wrong then Some index else None), st1)
    end.

  (* for i in range(len(self._args)): if i not in self._index_to_order: yield self.found_index(i) *)
  Fixpoint additional_args_from (st : toargs) (idxs : list Z) : res (list (T * option Z)) :=
    match idxs with
    | [] => OK []
    | i :: r =>
        if omem (ta_order st) i then additional_args_from st r
        else
          match found_index st i with
          | Err e => Err e
          | OK (a, ov, st') =>
              match additional_args_from st' r with
              | OK rest => OK ((a, ov) :: rest)
              | Err e => Err e
              end
          end
    end.
  Definition additional_args (st : toargs) : res (list (T * option Z)) :=
    additional_args_from st (map Z.of_nat (seq 0 (length (ta_args st)))).

  (** * FromArgs *)

  Record fromargs := mkFromArgs {
    fa_items : odict T;              (* _i_to_arg *)
    fa_index : list (T * Z)          (* _arg_to_i, keyed by _hash_fn(arg) *)
  }.
  Definition fromargs_empty : fromargs := {| fa_items := []; fa_index := [] |}.

  Fixpoint key_set (keys : list (T * Z)) (k : T) (i : Z) : list (T * Z) :=
    match keys with
    | [] => [(k, i)]
    | (k', j) :: r => if keq k k' then (k', i) :: r else (k', j) :: key_set r k i
    end.

  Definition fa_setitem (st : fromargs) (i : Z) (a : T) : res fromargs :=
    let clash := match oget (fa_items st) i with
                 | Some old => negb (keq old a)
                 | None => false
                 end in
    if clash then Err ValueError
    else OK {| fa_items := oset (fa_items st) i a; fa_index := key_set (fa_index st) a i |}.

  Definition fa_add (st : fromargs) (a : T) (ov : option Z) : res (Z * fromargs) :=
    match ov with
    | Some i => match fa_setitem st i a with OK st' => OK (i, st') | Err e => Err e end
    | None =>
        match key_lookup (fa_index st) a with
        | Some i => OK (i, st)
        | None =>
            let i := zlen (fa_items st) in
            match fa_setitem st i a with OK st' => OK (i, st') | Err e => Err e end
        end
    end.

  (* tuple of the values sorted by index; raises when the indices are not exactly 0..len-1 *)
  Fixpoint collect (d : odict T) (n : nat) (i : Z) : option (list T) :=
    match n with
    | O => Some []
    | S n' =>
        match oget d i with
        | None => None
        | Some v => match collect d n' (i + 1) with Some r => Some (v :: r) | None => None end
        end
    end.
  Definition fa_to_tuple (st : fromargs) : res (list T) :=
    match collect (fa_items st) (length (fa_items st)) 0 with
    | Some l => OK l
    | None => Err ValueError
    end.
End Tables.
Arguments toargs T : clear implicits.
Arguments fromargs T : clear implicits.

(** * to_arg *)

Record decstate (C : Type) := mkDec {
  d_names : toargs str; d_varnames : toargs str; d_cellvars : toargs str; d_consts : toargs C
}.
Arguments mkDec {C}. Arguments d_names {C}. Arguments d_varnames {C}. Arguments d_cellvars {C}.
Arguments d_consts {C}.

Section Decode.
  Context {C : Type} (keq : C -> C -> bool).

  Definition to_arg (c : cfg) (opcode a next_offset : Z) (freevars : list str) (st : decstate C)
    : res (arg_ C * decstate C) :=
    let scale := if cfg_v310 c then 2 else 1 in
    if zmem opcode (cfg_hasjabs c) then OK (AJump (scale * a) false, st)
    else if zmem opcode (cfg_hasjrel c) then OK (AJump (next_offset + scale * a) true, st)
    else if zmem opcode (cfg_hasname c) then
      match found_index str_eqb (d_names st) a with
      | OK (s, ov, t) => OK (AName s ov, mkDec t (d_varnames st) (d_cellvars st) (d_consts st))
      | Err e => Err e
      end
    else if zmem opcode (cfg_haslocal c) then
      match found_index str_eqb (d_varnames st) a with
      | OK (s, ov, t) => OK (AVarname s ov, mkDec (d_names st) t (d_cellvars st) (d_consts st))
      | Err e => Err e
      end
    else if zmem opcode (cfg_hasfree c) then
      let ncell := zlen (ta_args (d_cellvars st)) in
      if a <? ncell then
        match found_index str_eqb (d_cellvars st) a with
        | OK (s, ov, t) => OK (ACellvar s ov, mkDec (d_names st) (d_varnames st) t (d_consts st))
        | Err e => Err e
        end
      else
        match py_index freevars (a - ncell) with
        | Some s => OK (AFreevar s, st)
        | None => Err IndexError
        end
    else if zmem opcode (cfg_hasconst c) then
      match found_index keq (d_consts st) a with
      | OK (k, ov, t) => OK (AConst k ov, mkDec (d_names st) (d_varnames st) (d_cellvars st) t)
      | Err e => Err e
      end
    else if opcode <? cfg_have_argument c then OK (ANoArg a, st)
    else OK (AInt a, st).

  (* the first loop of bytes_to_blocks: instructions with byte-offset jump targets; pops the
     per-instruction entries out of the line mapping *)
  Fixpoint decode_instrs (c : cfg) (ps : list pinstr) (freevars : list str)
    (lm : linemap) (st : decstate C)
    : res (list (Z * instr_ C) * linemap * decstate C) :=
    match ps with
    | [] => OK ([], lm, st)
    | (opcode, a, n_args, offset, next_offset) :: r =>
        match to_arg c opcode a next_offset freevars st with
        | Err e => Err e
        | OK (parg, st1) =>
            let nov := match parg with
                       | AJump _ _ => if n_args >? 1 then Some n_args else None
                       | _ => None
                       end in
            match oget (lm_lines lm) offset with
            | None => Err KeyError                    (* offset_to_line.pop(offset) *)
            | Some line =>
                let offs := match oget (lm_adds lm) offset with Some l => l | None => [] end in
                let extra := range2 (offset + 2) next_offset in
                let lines' := fold_left (fun d k => odel d k) extra (odel (lm_lines lm) offset) in
                let adds' := fold_left (fun d k => odel d k) extra (odel (lm_adds lm) offset) in
                let ins := mkInstr opcode parg nov line offs in
                match decode_instrs c r freevars {| lm_lines := lines'; lm_adds := adds' |} st1 with
                | OK (rest, lm', st') => OK ((offset, ins) :: rest, lm', st')
                | Err e => Err e
                end
            end
        end
    end.

  Definition jump_targets (l : list (Z * instr_ C)) : list Z :=
    flat_map (fun oi : Z * instr_ C =>
                match i_arg (snd oi) with AJump t _ => [t] | _ => [] end) l.

  (* sorted(set(...)) *)
  Fixpoint insert_uniq (x : Z) (l : list Z) : list Z :=
    match l with
    | [] => [x]
    | y :: r => if x <? y then x :: l else if x =? y then l else y :: insert_uniq x r
    end.
  Definition sorted_set (l : list Z) : list Z := fold_right insert_uniq [] l.

  Definition retarget (targets : list Z) (i : instr_ C) : instr_ C :=
    match i_arg i with
    | AJump t rel =>
        mkInstr (i_name i)
                (AJump (match index_of Z.eqb t targets with Some k => k | None => -1 end) rel)
                (i_nargs i) (i_line i) (i_lineoffs i)
    | _ => i
    end.

  (* second loop: a new block starts at every instruction whose offset is a target *)
  Fixpoint split_blocks (targets : list Z) (l : list (Z * instr_ C))
    (cur : list (instr_ C)) (started : bool) : res (list (list (instr_ C))) :=
    match l with
    | [] => OK (if started then [rev cur] else [])
    | (offset, i) :: r =>
        let i' := retarget targets i in
        if zmem offset targets then
          match split_blocks targets r [i'] true with
          | OK rest => OK (if started then rev cur :: rest else rest)
          | Err e => Err e
          end
        else if started then split_blocks targets r (i' :: cur) true
        else Err NameError                            (* block.append before any block exists *)
    end.
End Decode.

(* Function / docstring information bytes_to_blocks needs *)
Definition has_docstring (t : option function) : bool :=
  match t with Some f => opt_is_some (fn_doc f) | None => false end.

Section Decode2.
  Context {C : Type} (keq : C -> C -> bool).

  Definition arg_of_additional {T} (mk : T -> option Z -> arg_ C) (l : list (T * option Z))
    : list (arg_ C) := map (fun p => mk (fst p) (snd p)) l.

  Definition bytes_to_blocks (c : cfg) (b : list Z) (lm : linemap)
    (names varnames freevars cellvars : list str) (constants : list C)
    (block_type : option function) (a : args)
    : res (list (list (instr_ C)) * list (arg_ C) * linemap) :=
    let st0 := mkDec (toargs_init names 0) (toargs_init varnames (args_len a))
                     (toargs_init cellvars 0) (toargs_init constants 0) in
    match (if has_docstring block_type then
             match found_index keq (d_consts st0) 0 with
             | OK (_, _, t) => OK (mkDec (d_names st0) (d_varnames st0) (d_cellvars st0) t)
             | Err e => Err e
             end
           else OK st0) with
    | Err e => Err e
    | OK st1 =>
        match parse_bytes c b 0 0 0 with
        | Err e => Err e
        | OK ps =>
            match decode_instrs keq c ps freevars lm st1 with
            | Err e => Err e
            | OK (ois, lm', st2) =>
                let targets := sorted_set (0 :: jump_targets ois) in
                match split_blocks targets ois [] false with
                | Err e => Err e
                | OK blocks =>
                    match additional_args str_eqb (d_names st2) with
                    | Err e => Err e
                    | OK an =>
                    match additional_args str_eqb (d_varnames st2) with
                    | Err e => Err e
                    | OK av =>
                    match additional_args str_eqb (d_cellvars st2) with
                    | Err e => Err e
                    | OK ac =>
                    match additional_args keq (d_consts st2) with
                    | Err e => Err e
                    | OK ak =>
                        OK (blocks,
                            arg_of_additional AName an ++ arg_of_additional AVarname av
                            ++ arg_of_additional ACellvar ac ++ arg_of_additional AConst ak,
                            lm')
                    end end end end
                end
            end
        end
    end.
End Decode2.

(** * from_arg and blocks_to_bytes *)

Record encstate (C : Type) := mkEnc {
  e_names : fromargs str; e_varnames : fromargs str; e_cellvars : fromargs str;
  e_consts : fromargs C
}.
Arguments mkEnc {C}. Arguments e_names {C}. Arguments e_varnames {C}. Arguments e_cellvars {C}.
Arguments e_consts {C}.

Section Encode.
  Context {C : Type} (keq : C -> C -> bool) (is_str : C -> bool) (none_c : C) (str_c : str -> C).

  Definition docstring_is_none (t : option function) : bool :=
    match t with Some f => negb (opt_is_some (fn_doc f)) | None => false end.

  Definition from_arg (a : arg_ C) (block_type : option function) (freevars : list str)
    (st : encstate C) : res (Z * encstate C) :=
    match a with
    | ANoArg z => OK (z, st)
    | AJump _ _ => OK (1, st)
    | AName s ov =>
        match fa_add str_eqb (e_names st) s ov with
        | OK (i, t) => OK (i, mkEnc t (e_varnames st) (e_cellvars st) (e_consts st))
        | Err e => Err e
        end
    | AVarname s ov =>
        match fa_add str_eqb (e_varnames st) s ov with
        | OK (i, t) => OK (i, mkEnc (e_names st) t (e_cellvars st) (e_consts st))
        | Err e => Err e
        end
    | AFreevar s =>
        match index_of str_eqb s freevars with
        | Some i => OK (i, st)
        | None => Err ValueError                            (* tuple.index *)
        end
    | ACellvar s ov =>
        match fa_add str_eqb (e_cellvars st) s ov with
        | OK (i, t) => OK (i, mkEnc (e_names st) (e_varnames st) t (e_consts st))
        | Err e => Err e
        end
    | AConst k ov =>
        let first_const := match fa_items (e_consts st) with [] => true | _ => false end in
        match (if docstring_is_none block_type && first_const && is_str k && negb (opt_is_some ov)
               then fa_setitem keq (e_consts st) 0 none_c else OK (e_consts st)) with
        | Err e => Err e
        | OK cs =>
            match fa_add keq cs k ov with
            | OK (i, t) => OK (i, mkEnc (e_names st) (e_varnames st) (e_cellvars st) t)
            | Err e => Err e
            end
        end
    | AInt z => OK (z, st)
    end.

  Definition enc_init (block_type : option function) : res (encstate C) :=
    let st0 := mkEnc (fromargs_empty) (fromargs_empty) (fromargs_empty) (fromargs_empty) in
    match block_type with
    | None => OK st0
    | Some f =>
        (* for i, k in enumerate(args_to_varnames(args)): varnames[i] = k *)
        let set_all :=
          fix go (l : list str) (i : Z) (t : fromargs str) : res (fromargs str) :=
            match l with
            | [] => OK t
            | k :: r => match fa_setitem str_eqb t i k with OK t' => go r (i + 1) t' | Err e => Err e end
            end in
        match set_all (args_to_varnames (fn_args f)) 0 fromargs_empty with
        | Err e => Err e
        | OK vn =>
            match fn_doc f with
            | Some d =>
                match fa_setitem keq fromargs_empty 0 (str_c d) with
                | OK cs => OK (mkEnc fromargs_empty vn fromargs_empty cs)
                | Err e => Err e
                end
            | None => OK (mkEnc fromargs_empty vn fromargs_empty fromargs_empty)
            end
        end
    end.

  (* first evaluation of every instruction's arg (the args dict of blocks_to_bytes), in order *)
  Fixpoint first_args (l : list (instr_ C)) (block_type : option function) (freevars : list str)
    (st : encstate C) : res (list Z * encstate C) :=
    match l with
    | [] => OK ([], st)
    | i :: r =>
        match from_arg (i_arg i) block_type freevars st with
        | Err e => Err e
        | OK (v, st1) =>
            match first_args r block_type freevars st1 with
            | OK (vs, st2) => OK (v :: vs, st2)
            | Err e => Err e
            end
        end
    end.

  (* offsets (in code units) at which each block starts, for the current arg values *)
  Fixpoint block_offsets (blocks : list (list (instr_ C))) (vals : list Z) (cur : Z) : list Z :=
    match blocks with
    | [] => []
    | blk :: r =>
        let n := length blk in
        let sz := sumZ (map (fun iv : instr_ C * Z => n_units (i_nargs (fst iv)) (snd iv))
                            (combine blk (firstn n vals))) in
        cur :: block_offsets r (skipn n vals) (cur + sz)
    end.

  (* block_index_to_instruction_offset[target]: a dict lookup, no negative indexing *)
  Definition py_index_dict (offs : list Z) (t : Z) : option Z :=
    if t <? 0 then None else nth_error offs (Z.to_nat t).

  (* second inner loop: new arg values for the jumps and the "changed" flag *)
  Fixpoint update_jumps (c : cfg) (l : list (instr_ C)) (vals : list Z) (offs : list Z) (cur : Z)
    : res (list Z * bool) :=
    match l, vals with
    | [], _ => OK ([], false)
    | i :: r, v :: vs =>
        let n := n_units (i_nargs i) v in
        let cur' := cur + n in
        match i_arg i with
        | AJump target rel =>
            match py_index_dict offs target with
            | None => Err KeyError
            | Some toff =>
                let mult := if cfg_v310 c then 1 else 2 in
                let nv := if rel then (toff - cur') * mult else mult * toff in
                let ch := negb (match i_nargs i with Some k => negb (k =? 0) | None => false end)
                          && negb (n =? instrsize nv) in
                match update_jumps c r vs offs cur' with
                | OK (rest, ch') => OK (nv :: rest, ch || ch')
                | Err e => Err e
                end
            end
        | _ =>
            match update_jumps c r vs offs cur' with
            | OK (rest, ch') => OK (v :: rest, ch')
            | Err e => Err e
            end
        end
    | _ :: _, [] => Err KeyError
    end.

  Fixpoint relax (fuel : nat) (c : cfg) (blocks : list (list (instr_ C))) (vals : list Z)
    : res (list Z) :=
    match fuel with
    | O => Err OutOfFuel
    | S f =>
        let offs := block_offsets blocks vals 0 in
        match update_jumps c (concat blocks) vals offs 0 with
        | Err e => Err e
        | OK (vals', changed) => if changed then relax f c blocks vals' else OK vals'
        end
    end.

  (* emit the code units of one instruction: EXTENDED_ARG prefixes then the opcode *)
  Fixpoint emit_units (c : cfg) (opcode a : Z) (k : nat) : list Z :=
    match k with
    | O => []
    | S j => (if (j =? 0)%nat then opcode else cfg_extended_arg c)
             :: Z.land (Z.shiftr a (8 * Z.of_nat j)) 255 :: emit_units c opcode a j
    end.

  Fixpoint assemble (c : cfg) (l : list (instr_ C)) (vals : list Z) (offset : Z) (lm : linemap)
    : res (list Z * linemap) :=
    match l, vals with
    | [], _ => OK ([], lm)
    | i :: r, v :: vs =>
        if negb (zmem (i_name i) (cfg_opcodes c)) then Err KeyError      (* dis.opmap[name] *)
        else
          let n := n_units (i_nargs i) v in
          let lines1 := oset (lm_lines lm) offset (i_line i) in
          let adds1 := match i_lineoffs i with [] => lm_adds lm | l => oset (lm_adds lm) offset l end in
          let lines2 := fold_left (fun d k => oset d k (i_line i))
                                  (range2 (offset + 2) (offset + 2 * n)) lines1 in
          let units := emit_units c (i_name i) v (Z.to_nat n) in
          match assemble c r vs (offset + zlen units) {| lm_lines := lines2; lm_adds := adds1 |} with
          | OK (rest, lm') => OK (units ++ rest, lm')
          | Err e => Err e
          end
    | _ :: _, [] => Err KeyError
    end.

  Definition add_freevar_offset (ncell : Z) (l : list (instr_ C)) (vals : list Z) : list Z :=
    map (fun iv : instr_ C * Z =>
           match i_arg (fst iv) with AFreevar _ => snd iv + ncell | _ => snd iv end)
        (combine l vals).

  Fixpoint add_additional (l : list (arg_ C)) (block_type : option function) (freevars : list str)
    (st : encstate C) : res (encstate C) :=
    match l with
    | [] => OK st
    | a :: r =>
        match from_arg a block_type freevars st with
        | OK (_, st') => add_additional r block_type freevars st'
        | Err e => Err e
        end
    end.

  (* code bytes, line mapping, names, varnames, cellvars, constants *)
  Definition blocks_to_bytes (c : cfg) (blocks : list (list (instr_ C))) (additional : list (arg_ C))
    (freevars : list str) (block_type : option function)
    : res (list Z * linemap * list str * list str * list str * list C) :=
    match enc_init block_type with
    | Err e => Err e
    | OK st0 =>
        let instrs := concat blocks in
        match first_args instrs block_type freevars st0 with
        | Err e => Err e
        | OK (vals0, st1) =>
            match add_additional additional block_type freevars st1 with
            | Err e => Err e
            | OK st2 =>
                (* free variable operands are offset by the number of cell variables before the
                   instruction sizes are relaxed *)
                let vals1 := add_freevar_offset (zlen (fa_items (e_cellvars st2))) instrs vals0 in
                match relax (3 * length instrs + 2) c blocks vals1 with
                | Err e => Err e
                | OK vals2 =>
                    match assemble c instrs vals2 0 empty_linemap with
                    | Err e => Err e
                    | OK (code, lm) =>
                        match fa_to_tuple (e_names st2), fa_to_tuple (e_varnames st2),
                              fa_to_tuple (e_cellvars st2), fa_to_tuple (e_consts st2) with
                        | OK n, OK v, OK cv, OK k => OK (code, lm, n, v, cv, k)
                        | Err e, _, _, _ => Err e
                        | _, Err e, _, _ => Err e
                        | _, _, Err e, _ => Err e
                        | _, _, _, Err e => Err e
                        end
                    end
                end
            end
        end
    end.

  (* blocks_to_constants: only the constants table *)
  Definition blocks_to_constants (blocks : list (list (instr_ C))) (additional : list (arg_ C))
    (block_type : option function) : res (list C) :=
    let empty_s : fromargs str := fromargs_empty in
    let empty_c : fromargs C := fromargs_empty in
    match (match block_type with
           | Some f => match fn_doc f with
                       | Some d => fa_setitem keq empty_c 0 (str_c d)
                       | None => OK empty_c
                       end
           | None => OK empty_c
           end) with
    | Err e => Err e
    | OK cs =>
        let only_consts := filter (fun a : arg_ C => match a with AConst _ _ => true | _ => false end) in
        match add_additional (only_consts (map i_arg (concat blocks)) ++ only_consts additional)
                block_type [] (mkEnc empty_s empty_s empty_s cs) with
        | Err e => Err e
        | OK st => fa_to_tuple (e_consts st)
        end
    end.
End Encode.
