(* A small universe of Python values with Python's == on them: what the keys built by
   code_data/_constants.py (inner_constant_key) are made of.  Used to state, about the key function
   re-translated from the source on every run (Gen/SrcKey.v), that comparing keys is the model's ikey_eqb. *)
From PCD Require Import Base.PyBase Base.Cfg Model.Flags Model.Args Model.Data Model.Consts.

Inductive pv :=
| PNone | PEllipsis
| PBool (b : bool) | PInt (z : Z) | PFloat (bits : Z)
| PStr (s : str) | PBytes (b : list Z)
| PType (t : Z)                       (* the type objects bool, int, float, complex *)
| PTuple (l : list pv) | PFrozenset (l : list pv).

Definition T_BOOL := 1. Definition T_INT := 2. Definition T_FLOAT := 3. Definition T_COMPLEX := 4.

(* floats as bit patterns: value comparison *)
Definition f_is_zero (bits : Z) : bool := (bits =? 0) || (bits =? 9223372036854775808).
Definition float_val_eqb (x y : Z) : bool :=
  if float_is_nan x || float_is_nan y then false else (x =? y) || (f_is_zero x && f_is_zero y).

(* the integer a finite float is equal to, if any (int == float compares exact values) *)
Definition float_as_int (bits : Z) : option Z :=
  let sign := bits / 2 ^ 63 in
  let e := (bits / 2 ^ 52) mod 2 ^ 11 in
  let m := bits mod 2 ^ 52 in
  if e =? 2047 then None
  else
    let mant := if e =? 0 then m else m + 2 ^ 52 in
    let sh := (if e =? 0 then 1 else e) - 1075 in
    let mag := if sh >=? 0 then Some (mant * 2 ^ sh)
               else if mant mod 2 ^ (- sh) =? 0 then Some (mant / 2 ^ (- sh)) else None in
    match mag with Some v => Some (if sign =? 1 then - v else v) | None => None end.
Definition int_float_eqb (z bits : Z) : bool :=
  match float_as_int bits with Some v => z =? v | None => false end.
Definition b2z (b : bool) : Z := if b then 1 else 0.

(* Python's == ; sets compared as sets (hashing is taken to be consistent with ==) *)
Fixpoint pv_eqb (a b : pv) : bool :=
  match a, b with
  | PNone, PNone => true
  | PEllipsis, PEllipsis => true
  | PBool x, PBool y => Bool.eqb x y
  | PInt x, PInt y => x =? y
  | PBool x, PInt y => b2z x =? y
  | PInt x, PBool y => x =? b2z y
  | PFloat x, PFloat y => float_val_eqb x y
  | PInt x, PFloat y => int_float_eqb x y
  | PFloat x, PInt y => int_float_eqb y x
  | PBool x, PFloat y => int_float_eqb (b2z x) y
  | PFloat x, PBool y => int_float_eqb (b2z y) x
  | PStr x, PStr y => str_eqb x y
  | PBytes x, PBytes y => list_eqb Z.eqb x y
  | PType x, PType y => x =? y
  | PTuple x, PTuple y =>
      (fix go (l1 l2 : list pv) : bool :=
         match l1, l2 with
         | [], [] => true
         | p :: ps, q :: qs => pv_eqb p q && go ps qs
         | _, _ => false
         end) x y
  | PFrozenset x, PFrozenset y =>
      (fix sub (l1 : list pv) (l2 : list pv) : bool :=
         match l1 with
         | [] => true
         | p :: ps =>
             (fix mem (l : list pv) : bool :=
                match l with [] => false | q :: qs => pv_eqb p q || mem qs end) l2
             && sub ps l2
         end) x y
      &&
      (fix sub2 (l2 : list pv) : bool :=
         match l2 with
         | [] => true
         | q :: qs =>
             (fix mem (l : list pv) : bool :=
                match l with [] => false | p :: ps => pv_eqb p q || mem ps end) x
             && sub2 qs
         end) y
  | _, _ => false
  end.

(* the helpers of _constants.py on bit patterns: str(value) == "-0.0" ; isnan(value) -> "nan" *)
Definition is_neg_zero (bits : Z) : pv := PBool (float_is_neg_zero bits).
Definition nan_text : str := [110; 97; 110].
Definition replace_nan (bits : Z) : pv := if float_is_nan bits then PStr nan_text else PFloat bits.
