(* dict / set operations the operand tables of code_data/_blocks.py use, on the representations of Model/Blocks.v:
   association lists under a key equality (dicts keyed by self._hash_fn(x)), lists as sets of keys. *)
From PCD Require Import Base.PyBase Base.Cfg Model.Flags Model.Args Model.Data Model.LineTable Model.Blocks.

Section Ops.
  Context {T : Type} (keq : T -> T -> bool).

  (* d.setdefault(key, v): the value already stored under the key, else v, which is then stored *)
  Definition setdefault (keys : list (T * Z)) (k : T) (v : Z) : Z * list (T * Z) :=
    match key_lookup keq keys k with
    | Some first => (first, keys)
    | None => (v, keys ++ [(k, v)])
    end.

  (* s.add(key) *)
  Definition dup_add (s : list T) (k : T) : list T := if key_mem keq s k then s else k :: s.

  (* d[k] for a key that is present (found_index reads the rank right after storing it; when the key is absent Python
     raises KeyError - a value different from k is returned here, and found_index_rank_present shows the case cannot arise) *)
  Definition order_at (d : odict Z) (k : Z) : Z := match oget d k with Some o => o | None => k + 1 end.
End Ops.
