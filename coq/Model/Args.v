(* Model of code_data/_args.py (after the fix that reads co_varnames in CPython's order). *)
From PCD Require Import Base.PyBase Base.Cfg Model.Flags.

Record args := {
  a_posonly : list str;
  a_poskw : list str;
  a_varpos : option str;
  a_kwonly : list str;
  a_varkw : option str
}.
Definition empty_args : args :=
  {| a_posonly := []; a_poskw := []; a_varpos := None; a_kwonly := []; a_varkw := None |}.

(* python slices never raise: negative bounds count from the end *)
Definition py_slice_to {A} (n : Z) (l : list A) : list A :=
  if n <? 0 then take (Z.max 0 (zlen l + n)) l else take n l.
Definition py_slice_from {A} (n : Z) (l : list A) : list A :=
  if n <? 0 then drop (Z.max 0 (zlen l + n)) l else drop n l.

(* returns the args and the flags left after removing VARARGS / VARKEYWORDS *)
Definition args_from_input (argcount posonly kwonly : Z) (varnames : list str) (fl : list flag)
  : res (args * list flag) :=
  let positional_only := py_slice_to posonly varnames in
  let v1 := py_slice_from posonly varnames in
  let pk := argcount - posonly in
  let positional_or_keyword := py_slice_to pk v1 in
  let v2 := py_slice_from pk v1 in
  let keyword_only := py_slice_to kwonly v2 in
  let v3 := py_slice_from kwonly v2 in
  match (if flag_mem VARARGS fl
         then match v3 with [] => Err IndexError | x :: r => OK (Some x, r, flag_remove VARARGS fl) end
         else OK (None, v3, fl)) with
  | Err e => Err e
  | OK (var_positional, v4, fl1) =>
      match (if flag_mem VARKEYWORDS fl1
             then match v4 with [] => Err IndexError | x :: r => OK (Some x, flag_remove VARKEYWORDS fl1) end
             else OK (None, fl1)) with
      | Err e => Err e
      | OK (var_keyword, fl2) =>
          OK ({| a_posonly := positional_only; a_poskw := positional_or_keyword;
                 a_varpos := var_positional; a_kwonly := keyword_only; a_varkw := var_keyword |}, fl2)
      end
  end.

(* presence of an Optional[str] (`is not None`; the empty string is a name like any other) *)
Definition str_truthy (o : option str) : bool :=
  match o with Some _ => true | None => false end.
Definition opt_list {A} (o : option A) : list A := match o with Some x => [x] | None => [] end.
Definition truthy_list (o : option str) : list str := if str_truthy o then opt_list o else [].

(* parameter kinds of inspect._ParameterKind *)
Definition K_POSONLY := 0. Definition K_POSKW := 1. Definition K_VARPOS := 2.
Definition K_KWONLY := 3. Definition K_VARKW := 4.

(* OrderedDict(...) : a later duplicate name overwrites the kind but keeps the first position *)
Fixpoint od_set (d : list (str * Z)) (k : str) (v : Z) : list (str * Z) :=
  match d with
  | [] => [(k, v)]
  | (k', v') :: r => if str_eqb k' k then (k, v) :: r else (k', v') :: od_set r k v
  end.
Definition od_of_pairs (l : list (str * Z)) : list (str * Z) :=
  fold_left (fun d kv => od_set d (fst kv) (snd kv)) l [].

Definition args_to_parameters (a : args) : list (str * Z) :=
  od_of_pairs
    (map (fun n => (n, K_POSONLY)) (a_posonly a) ++
     map (fun n => (n, K_POSKW)) (a_poskw a) ++
     map (fun n => (n, K_VARPOS)) (truthy_list (a_varpos a)) ++
     map (fun n => (n, K_KWONLY)) (a_kwonly a) ++
     map (fun n => (n, K_VARKW)) (truthy_list (a_varkw a))).

Definition args_len (a : args) : Z := zlen (args_to_parameters a).

(* names in co_varnames order: positional, keyword only, *args, **kwargs *)
Definition args_to_varnames (a : args) : list str :=
  a_posonly a ++ a_poskw a ++ a_kwonly a ++ truthy_list (a_varpos a) ++ truthy_list (a_varkw a).

Definition flag_add (f : flag) (fs : list flag) : list flag :=
  if flag_mem f fs then fs else fs ++ [f].

(* argcount, posonlyargcount, kwonlyargcount, varnames, flags *)
Definition args_to_input (a : args) (fl : list flag) : Z * Z * Z * list str * list flag :=
  let fl1 := if str_truthy (a_varpos a) then flag_add VARARGS fl else fl in
  let fl2 := if str_truthy (a_varkw a) then flag_add VARKEYWORDS fl1 else fl1 in
  (zlen (a_posonly a) + zlen (a_poskw a), zlen (a_posonly a), zlen (a_kwonly a),
   args_to_varnames a, fl2).
