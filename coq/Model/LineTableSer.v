From PCD Require Import Base.PyBase Base.Ser Model.LineTable.
Definition ser_eitem (i : eitem) : list Z := [fst i; snd i].
Definition ser_citem (i : citem) : list Z := ser_opt ser_Z (fst i) ++ [snd i].
Definition ser_eitems := ser_list ser_eitem.
Definition ser_citems := ser_list ser_citem.
Definition ser_linemap (m : linemap) : list Z :=
  ser_list (fun kv : Z * option Z => fst kv :: ser_opt ser_Z (snd kv)) (lm_lines m)
  ++ ser_list (fun kv : Z * list Z => fst kv :: ser_list ser_Z (snd kv)) (lm_adds m).
