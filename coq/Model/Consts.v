(* Model of code_data/_constants.py (constant_key) and of Python's == on the data classes
   (Constant.__eq__ goes through constant_key; everything else is the generated dataclass __eq__). *)
From PCD Require Import Base.PyBase Base.Cfg Model.Flags Model.Args Model.Data.

(* floats as 64-bit patterns *)
Definition float_is_nan (bits : Z) : bool :=
  (Z.land bits 9218868437227405312 =? 9218868437227405312)        (* exponent all ones *)
  && negb (Z.land bits 4503599627370495 =? 0).                     (* mantissa non-zero *)
Definition float_is_neg_zero (bits : Z) : bool := bits =? 9223372036854775808.
Definition float_is_inf (bits : Z) : bool :=
  (bits =? 9218868437227405312) || (bits =? 18442240474082181120).
(* (replace_nan(x), is_neg_zero(x)) == (replace_nan(y), is_neg_zero(y)) *)
Definition float_key_eqb (x y : Z) : bool :=
  (float_is_nan x && float_is_nan y) || (x =? y).

Section ListHelpers.
  Context {A : Type} (eqb : A -> A -> bool).
  Fixpoint leqb (a b : list A) : bool :=
    match a, b with
    | [], [] => true
    | x :: xs, y :: ys => eqb x y && leqb xs ys
    | _, _ => false
    end.
  Definition lmem (x : A) (l : list A) : bool := existsb (eqb x) l.
  (* equality of Python sets given as listings *)
  Definition set_eqb (a b : list A) : bool :=
    forallb (fun x => lmem x b) a && forallb (fun y => lmem y a) b.
End ListHelpers.

(* constant_key(a) == constant_key(b) for inner constants *)
Fixpoint ikey_eqb (a b : iconst) : bool :=
  match a, b with
  | INone, INone => true
  | IEllipsis, IEllipsis => true
  | IBool x, IBool y => Bool.eqb x y
  | IInt x, IInt y => x =? y
  | IFloat x, IFloat y => float_key_eqb x y
  | IComplex r1 i1, IComplex r2 i2 => float_key_eqb r1 r2 && float_key_eqb i1 i2
  | IStr x, IStr y => str_eqb x y
  | IBytes x, IBytes y => list_eqb Z.eqb x y
  | ITuple x, ITuple y =>
      (fix go (l1 l2 : list iconst) : bool :=
         match l1, l2 with
         | [], [] => true
         | p :: ps, q :: qs => ikey_eqb p q && go ps qs
         | _, _ => false
         end) x y
  | IFrozenset x, IFrozenset y =>
      (fix sub (l1 : list iconst) (l2 : list iconst) : bool :=
         match l1 with
         | [] => true
         | p :: ps =>
             (fix mem (l : list iconst) : bool :=
                match l with [] => false | q :: qs => ikey_eqb p q || mem qs end) l2
             && sub ps l2
         end) x y
      &&
      (fix sub2 (l2 : list iconst) : bool :=
         match l2 with
         | [] => true
         | q :: qs =>
             (fix mem (l : list iconst) : bool :=
                match l with [] => false | p :: ps => ikey_eqb p q || mem ps end) x
             && sub2 qs
         end) y
  | _, _ => false
  end.

Definition args_eqb (a b : args) : bool :=
  list_eqb str_eqb (a_posonly a) (a_posonly b) && list_eqb str_eqb (a_poskw a) (a_poskw b)
  && option_eqb str_eqb (a_varpos a) (a_varpos b) && list_eqb str_eqb (a_kwonly a) (a_kwonly b)
  && option_eqb str_eqb (a_varkw a) (a_varkw b).
Definition fntype_eqb (a b : fntype) : bool := fntype_id a =? fntype_id b.
Definition function_eqb (a b : function) : bool :=
  args_eqb (fn_args a) (fn_args b) && option_eqb str_eqb (fn_doc a) (fn_doc b)
  && option_eqb fntype_eqb (fn_type a) (fn_type b).
Definition addline_eqb (a b : addline) : bool :=
  option_eqb Z.eqb (al_line a) (al_line b) && list_eqb Z.eqb (al_offs a) (al_offs b).

Section DataEq.
  Context {C : Type} (ceqb : C -> C -> bool).
  Definition arg_eqb (a b : arg_ C) : bool :=
    match a, b with
    | AInt x, AInt y => x =? y
    | AJump t1 r1, AJump t2 r2 => (t1 =? t2) && Bool.eqb r1 r2
    | AName s1 o1, AName s2 o2 => str_eqb s1 s2 && option_eqb Z.eqb o1 o2
    | AVarname s1 o1, AVarname s2 o2 => str_eqb s1 s2 && option_eqb Z.eqb o1 o2
    | AConst c1 o1, AConst c2 o2 => option_eqb Z.eqb o1 o2 && ceqb c1 c2
    | AFreevar s1, AFreevar s2 => str_eqb s1 s2
    | ACellvar s1 o1, ACellvar s2 o2 => str_eqb s1 s2 && option_eqb Z.eqb o1 o2
    | ANoArg x, ANoArg y => x =? y
    | _, _ => false
    end.
  Definition instr_eqb (a b : instr_ C) : bool :=
    (i_name a =? i_name b) && arg_eqb (i_arg a) (i_arg b)
    && option_eqb Z.eqb (i_nargs a) (i_nargs b) && option_eqb Z.eqb (i_line a) (i_line b)
    && list_eqb Z.eqb (i_lineoffs a) (i_lineoffs b).
  Definition cd_eqb_with (a b : code_data_ C) : bool :=
    leqb (leqb instr_eqb) (cd_blocks a) (cd_blocks b)
    && str_eqb (cd_filename a) (cd_filename b) && (cd_firstline a =? cd_firstline b)
    && str_eqb (cd_name a) (cd_name b) && (cd_stacksize a =? cd_stacksize b)
    && option_eqb function_eqb (cd_type a) (cd_type b)
    && list_eqb str_eqb (cd_freevars a) (cd_freevars b)
    && Bool.eqb (cd_future_annotations a) (cd_future_annotations b)
    && Bool.eqb (cd_nested a) (cd_nested b)
    && option_eqb addline_eqb (cd_addline a) (cd_addline b)
    && leqb arg_eqb (cd_addargs a) (cd_addargs b).
End DataEq.

(* constant_key(a) == constant_key(b): the key of a CodeData is the CodeData itself *)
Fixpoint key_eqb (a b : const) : bool :=
  match a, b with
  | KInner x, KInner y => ikey_eqb x y
  | KCode x, KCode y => cd_eqb_with key_eqb x y
  | _, _ => false
  end.
Definition cd_eqb : code_data -> code_data -> bool := cd_eqb_with key_eqb.
