(* The data classes of code_data/__init__.py, field for field (private override fields included),
   and the model of a CPython code object. *)
From PCD Require Import Base.PyBase Base.Cfg Model.Flags Model.Args.

(* InnerConstant: everything a constant can be except nested code.  Floats are 64-bit patterns. *)
Inductive iconst :=
| INone | IBool (b : bool) | IInt (z : Z) | IFloat (bits : Z) | IComplex (re im : Z)
| IStr (s : str) | IBytes (b : list Z) | IEllipsis
| ITuple (l : list iconst) | IFrozenset (l : list iconst).

Inductive arg_ (C : Type) :=
| AInt (z : Z)
| AJump (target : Z) (relative : bool)
| AName (s : str) (ov : option Z)
| AVarname (s : str) (ov : option Z)
| AConst (c : C) (ov : option Z)
| AFreevar (s : str)
| ACellvar (s : str) (ov : option Z)
| ANoArg (z : Z).
Arguments AInt {C}. Arguments AJump {C}. Arguments AName {C}. Arguments AVarname {C}.
Arguments AConst {C}. Arguments AFreevar {C}. Arguments ACellvar {C}. Arguments ANoArg {C}.

Record instr_ (C : Type) := mkInstr {
  i_name : Z;                   (* opcode; Instruction.name is dis.opname[opcode] *)
  i_arg : arg_ C;
  i_nargs : option Z;           (* _n_args_override *)
  i_line : option Z;            (* line_number *)
  i_lineoffs : list Z           (* _line_offsets_override *)
}.
Arguments mkInstr {C}. Arguments i_name {C}. Arguments i_arg {C}. Arguments i_nargs {C}.
Arguments i_line {C}. Arguments i_lineoffs {C}.

Inductive fntype := FT_GENERATOR | FT_COROUTINE | FT_ASYNC_GENERATOR.
Definition fntype_flag (t : fntype) : flag :=
  match t with FT_GENERATOR => GENERATOR | FT_COROUTINE => COROUTINE | FT_ASYNC_GENERATOR => ASYNC_GENERATOR end.
Definition fntype_id (t : fntype) : Z :=
  match t with FT_GENERATOR => 0 | FT_COROUTINE => 1 | FT_ASYNC_GENERATOR => 2 end.

Record function := mkFunction {
  fn_args : args;
  fn_doc : option str;
  fn_type : option fntype
}.

Record addline := mkAddline { al_line : option Z; al_offs : list Z }.

Record code_data_ (C : Type) := mkCD {
  cd_blocks : list (list (instr_ C));
  cd_filename : str;
  cd_firstline : Z;
  cd_name : str;
  cd_stacksize : Z;
  cd_type : option function;
  cd_freevars : list str;
  cd_future_annotations : bool;
  cd_nested : bool;
  cd_addline : option addline;
  cd_addargs : list (arg_ C)
}.
Arguments mkCD {C}. Arguments cd_blocks {C}. Arguments cd_filename {C}. Arguments cd_firstline {C}.
Arguments cd_name {C}. Arguments cd_stacksize {C}. Arguments cd_type {C}. Arguments cd_freevars {C}.
Arguments cd_future_annotations {C}. Arguments cd_nested {C}. Arguments cd_addline {C}.
Arguments cd_addargs {C}.

(* ConstantValue = InnerConstant | CodeData: nested code only at the top level of a constant *)
Inductive const :=
| KInner (i : iconst)
| KCode (cd : code_data_ const).
Definition code_data := code_data_ const.
Definition instruction := instr_ const.
Definition arg := arg_ const.

(* A CPython code object.  [co_posonlyargcount] is 0 before 3.8; [co_linetable] is co_lnotab
   before 3.10. *)
Record pycode_ (K : Type) := mkCode {
  co_argcount : Z;
  co_posonlyargcount : Z;
  co_kwonlyargcount : Z;
  co_nlocals : Z;
  co_stacksize : Z;
  co_flags : Z;
  co_code : list Z;
  co_consts : list K;
  co_names : list str;
  co_varnames : list str;
  co_filename : str;
  co_name : str;
  co_firstlineno : Z;
  co_linetable : list Z;
  co_freevars : list str;
  co_cellvars : list str
}.
Arguments mkCode {K}. Arguments co_argcount {K}. Arguments co_posonlyargcount {K}.
Arguments co_kwonlyargcount {K}. Arguments co_nlocals {K}. Arguments co_stacksize {K}.
Arguments co_flags {K}. Arguments co_code {K}. Arguments co_consts {K}. Arguments co_names {K}.
Arguments co_varnames {K}. Arguments co_filename {K}. Arguments co_name {K}.
Arguments co_firstlineno {K}. Arguments co_linetable {K}. Arguments co_freevars {K}.
Arguments co_cellvars {K}.

Inductive pyconst :=
| PInner (i : iconst)
| PCode (c : pycode_ pyconst).
Definition pycode := pycode_ pyconst.
