From PCD Require Import Base.PyBase Base.Ser Base.Cfg Model.Flags Model.Args.
Definition ser_flags (fs : list flag) : list Z := ser_list ser_Z (flag_ids fs).
Definition ser_args (a : args) : list Z :=
  ser_list ser_str (a_posonly a) ++ ser_list ser_str (a_poskw a) ++ ser_opt ser_str (a_varpos a)
  ++ ser_list ser_str (a_kwonly a) ++ ser_opt ser_str (a_varkw a).
Definition ser_params (p : list (str * Z)) : list Z :=
  ser_list (fun kv : str * Z => ser_str (fst kv) ++ [snd kv]) p.
