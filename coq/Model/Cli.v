(* Model of the option validation of code_data/_cli.py main(): the four program sources are
   optional strings; exactly one must be given (counted by presence). *)
From PCD Require Import Base.PyBase.

Definition count_given (l : list bool) : Z := zlen (filter (fun b => b) l).
(* file, cmd, mod, eval: whether each was given on the command line *)
Definition cli_accepts (file cmd mod_ eval_ : bool) : bool := count_given [file; cmd; mod_; eval_] =? 1.

(* what main prints for a program, in terms of the API: the (normalized) decoded data; the JSON
   section is its to_json_data *)
Definition cli_data {D} (normalize : D -> D) (no_normalize : bool) (d : D) : D :=
  if no_normalize then d else normalize d.

(* What main() prints, in order, as a function of the output flags.  The value shown at each point is
   symbolic: the decoded data of the program, or its normal form. *)
Inductive dval := VDecoded | VNormalized (v : dval).
Inductive action :=
| APrintSource                 (* --source, when the source text is available *)
| ADis                         (* --dis: show_code + dis.dis of the compiled code object *)
| APrint (v : dval)            (* the data, always *)
| AJson (v : dval)             (* --json: to_json_data of the value *)
| ADisAfter (v : dval).        (* --dis-after: show_code + dis.dis of to_code of the value *)

Definition cli_value (no_normalize : bool) : dval := if no_normalize then VDecoded else VNormalized VDecoded.
Definition cli_actions (show_dis show_source show_dis_after no_normalize json has_source : bool) : list action :=
  (if show_source && has_source then [APrintSource] else []) ++ (if show_dis then [ADis] else []) ++
  [APrint (cli_value no_normalize)] ++ (if json then [AJson (cli_value no_normalize)] else []) ++
  (if show_dis_after then [ADisAfter (cli_value no_normalize)] else []).

(* the symbolic value denotes: *)
Fixpoint dval_denote {D} (normalize : D -> D) (v : dval) (d : D) : D :=
  match v with VDecoded => d | VNormalized v' => normalize (dval_denote normalize v' d) end.
