(* Model of the option validation of code_data/_cli.py main(): the four program sources are
   optional strings; exactly one must be given (counted by presence). *)
From PCD Require Import Base.PyBase.

Definition count_given (l : list bool) : Z := zlen (filter (fun b => b) l).
(* file, cmd, mod, eval: whether each was given on the command line *)
Definition cli_accepts (file cmd mod_ eval_ : bool) : bool := count_given [file; cmd; mod_; eval_] =? 1.

(* what main prints for a program, in terms of the API: the (normalized) decoded data; the JSON
   section is its to_json_data *)
Definition cli_data {D} (normalize : D -> D) (no_normalize : bool) (d : D) : D :=
  if no_normalize then d else normalize d.
