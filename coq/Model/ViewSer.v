From PCD Require Import Base.PyBase Base.Ser Base.Cfg Model.Flags Model.Args Model.Data
  Model.LineTable Model.DataSer Spec.Lnotab Spec.Dis.

Definition ser_dval {K} (ser_k : K -> list Z) (v : dval K) : list Z :=
  match v with
  | DNoArg => [0] | DInt z => [1; z] | DName s => 2 :: ser_str s | DLocal s => 3 :: ser_str s
  | DCell s => 4 :: ser_str s | DFree s => 5 :: ser_str s | DConst k => 6 :: ser_k k
  | DJump t rel => [7; t; if rel then 1 else 0] | DBad => [8]
  end.
Definition ser_view {K} (ser_k : K -> list Z) (l : list (vinstr K)) : list Z :=
  ser_list (fun v => v_op v :: ser_dval ser_k (v_val v) ++ ser_opt ser_Z (v_line v)) l.

(* C13 projection: block lengths and jump target indices *)
Definition shape_of {K} (blocks : list (list (instr_ K))) : list Z :=
  ser_list (fun b => [zlen b]) blocks
  ++ ser_list (fun i : instr_ K => match i_arg i with AJump t _ => [t] | _ => [-1] end) (concat blocks).

(* raw table bytes -> entries for the spec readers *)
Definition raw_entries (table : list Z) : list eitem :=
  match bytes_to_items table with OK l => l | Err _ => [] end.

(* C09 projection: the override field of an operand *)
Definition arg_override {K} (a : arg_ K) : option Z :=
  match a with
  | AName _ ov | AVarname _ ov | AConst _ ov | ACellvar _ ov => ov
  | _ => None
  end.
Definition arg_tag {K} (a : arg_ K) : Z :=
  match a with AInt _ => 0 | AJump _ _ => 1 | AName _ _ => 2 | AVarname _ _ => 3 | AConst _ _ => 4
             | AFreevar _ => 5 | ACellvar _ _ => 6 | ANoArg _ => 7 end.
