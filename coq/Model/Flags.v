(* Model of code_data/_flags_data.py: to_flags_data (with enum._decompose of CPython 3.7-3.10,
   transcribed) and from_flags_data.  A FlagsData set is a list of flag names. *)
From PCD Require Import Base.PyBase Base.Cfg.

(* enum._decompose(_CodeFlag, value) for value > 0: the members whose (non-zero) value is contained
   in value, and the bits of value no member covers.  (Pseudo-members that earlier calls may have
   added to _value2member_map_ are unnamed; a power-of-two one would be listed as a member but is
   then rejected by the `f not in _CodeFlag` test, so the result is the same: ValueError.) *)
Definition decompose (c : cfg) (value : Z) : list (flag * Z) * Z :=
  let members :=
    filter (fun fv : flag * Z => negb (snd fv =? 0) && (Z.land (snd fv) value =? snd fv)) (cfg_flags c) in
  (members, fold_left (fun nc fv => Z.land nc (Z.lnot (snd fv))) members value).

Definition to_flags_data (c : cfg) (flags : Z) : res (list flag) :=
  if flags =? 0 then OK []
  else
    let '(members, not_covered) := decompose c flags in
    if negb (not_covered =? 0) then Err ValueError
    else OK (map fst members).

Fixpoint flag_value (tbl : list (flag * Z)) (f : flag) : option Z :=
  match tbl with
  | [] => None
  | (g, v) :: r => if flag_eqb f g then Some v else flag_value r f
  end.

(* for f in flags_data: flags |= getattr(_CodeFlag, f) *)
Fixpoint from_flags_data (c : cfg) (fs : list flag) : res Z :=
  match fs with
  | [] => OK 0
  | f :: r =>
      match flag_value (cfg_flags c) f with
      | None => Err AttributeError
      | Some v => match from_flags_data c r with OK w => OK (Z.lor v w) | Err e => Err e end
      end
  end.

Definition flag_mem (f : flag) (fs : list flag) : bool := existsb (flag_eqb f) fs.
Definition flag_remove (f : flag) (fs : list flag) : list flag :=
  filter (fun g => negb (flag_eqb f g)) fs.

(* canonical listing of a set for comparison: sorted by id *)
Fixpoint insert_sorted (x : Z) (l : list Z) : list Z :=
  match l with
  | [] => [x]
  | y :: r => if x <=? y then x :: l else y :: insert_sorted x r
  end.
Definition sort_Z (l : list Z) : list Z := fold_right insert_sorted [] l.
Definition flag_ids (fs : list flag) : list Z := sort_Z (map flag_id fs).
