(* The dataclass fields, in definition order, and their defaults as Model/Json.v assumes them when it
   hides default-valued fields (opt_field / list_field / bool_field / arg_is_default / args_is_default)
   and restores them on loading.  Gen/SrcFields.v is regenerated from code_data/__init__.py on every
   run and compared with this table (Props/C07.v). *)
From Coq Require Import String List.
Import ListNotations.
From PCD Require Import Base.PyBase Model.Json.

Inductive field_default :=
| D_required | D_None | D_False | D_zero | D_empty_tuple | D_factory (ctor : str).

Definition model_fields : list (str * list (str * field_default)) :=
  [ (lit "CodeData",
     [(lit "blocks", D_required); (lit "filename", D_required); (lit "first_line_number", D_required);
      (lit "name", D_required); (lit "stacksize", D_required); (lit "type", D_None);
      (lit "freevars", D_empty_tuple); (lit "future_annotations", D_False); (lit "_nested", D_False);
      (lit "_additional_line", D_None); (lit "_additional_args", D_empty_tuple)]);
    (lit "Instruction",
     [(lit "name", D_required); (lit "arg", D_factory (lit "NoArg")); (lit "_n_args_override", D_None);
      (lit "line_number", D_None); (lit "_line_offsets_override", D_empty_tuple)]);
    (lit "Jump", [(lit "target", D_required); (lit "relative", D_False)]);
    (lit "Name", [(lit "name", D_required); (lit "_index_override", D_None)]);
    (lit "Varname", [(lit "varname", D_required); (lit "_index_override", D_None)]);
    (lit "Constant", [(lit "constant", D_required); (lit "_index_override", D_None)]);
    (lit "Freevar", [(lit "freevar", D_required)]);
    (lit "Cellvar", [(lit "cellvar", D_required); (lit "_index_override", D_None)]);
    (lit "NoArg", [(lit "_arg", D_zero)]);
    (lit "Args",
     [(lit "positional_only", D_empty_tuple); (lit "positional_or_keyword", D_empty_tuple);
      (lit "var_positional", D_None); (lit "keyword_only", D_empty_tuple); (lit "var_keyword", D_None)]);
    (lit "Function", [(lit "args", D_factory (lit "Args")); (lit "docstring", D_None); (lit "type", D_None)]);
    (lit "AdditionalLine", [(lit "line", D_required); (lit "additional_offsets", D_empty_tuple)]) ].

Definition fd_eqb (a b : field_default) : bool :=
  match a, b with
  | D_required, D_required | D_None, D_None | D_False, D_False | D_zero, D_zero
  | D_empty_tuple, D_empty_tuple => true
  | D_factory x, D_factory y => str_eqb x y
  | _, _ => false
  end.
Definition fields_eqb (a b : list (str * list (str * field_default))) : bool :=
  list_eqb (fun x y => str_eqb (fst x) (fst y)
                       && list_eqb (fun p q => str_eqb (fst p) (fst q) && fd_eqb (snd p) (snd q)) (snd x) (snd y)) a b.
