(* Model of code_data/_json_data.py and dataclass_hide_default.field_is_default.
   JSON documents are values of [json]; dict key order is the dataclass field order.
   Three text-level codecs are abstracted (the harness canonicalises them, see DESIGN.md):
   repr / ast.literal_eval of a surrogate-bearing string and base64 are modelled as the identity on
   the code points / bytes, and an instruction name is a one-code-point string holding a
   version-independent id of the opcode name. *)
From Coq Require Import String Ascii.
From PCD Require Import Base.PyBase Base.Cfg Model.Flags Model.Args Model.Data Model.Consts.
Open Scope Z_scope.

Inductive json :=
| JNull | JBool (b : bool) | JInt (z : Z) | JFloat (bits : Z) | JStr (s : str)
| JList (l : list json) | JObj (f : list (str * json)).

(* string literals as code point lists *)
Definition lit (x : string) : str := map (fun a => Z.of_N (N_of_ascii a)) (list_ascii_of_string x).

Definition MIN_INTEGER : Z := - 2 ^ 53 + 1.
Definition MAX_INTEGER : Z := 2 ^ 53 - 1.

(** * decimal text of an int: str(value) / int(text) *)
Fixpoint pos_digits (fuel : nat) (n : Z) (acc : str) : str :=
  match fuel with
  | O => acc
  | S f => if n <? 10 then (48 + n) :: acc else pos_digits f (n / 10) ((48 + n mod 10) :: acc)
  end.
Definition decimal (z : Z) : str :=
  if z <? 0 then 45 :: pos_digits (Z.to_nat (Z.log2 (- z)) + 1) (- z) []
  else pos_digits (Z.to_nat (Z.log2 z) + 1) z [].
Fixpoint parse_digits (s : str) (acc : Z) : option Z :=
  match s with
  | [] => Some acc
  | d :: r => if (48 <=? d) && (d <=? 57) then parse_digits r (acc * 10 + (d - 48)) else None
  end.
Definition parse_int (s : str) : option Z :=
  match s with
  | [] => None
  | 45 :: (_ :: _) as r => match parse_digits r 0 with Some v => Some (- v) | None => None end
  | _ => parse_digits s 0
  end.

(** * hexadecimal text of an int: hex(value) / int(text, 16).  Used for ints of more than MAX_DECIMAL_BITS bits:
   str() / int() refuse huge decimal conversions (sys.set_int_max_str_digits), hex() / int(.., 16) do not *)
Definition hex_digit (d : Z) : Z := if d <? 10 then 48 + d else 87 + d.      (* 0-9, a-f *)
Fixpoint hex_digits (fuel : nat) (n : Z) (acc : str) : str :=
  match fuel with
  | O => acc
  | S f => if n <? 16 then hex_digit n :: acc
           else hex_digits f (Z.shiftr n 4) (hex_digit (Z.land n 15) :: acc)     (* n // 16, n % 16: linear on big ints *)
  end.
(* hex(value): '0x..' / '-0x..' *)
Definition hex_text (z : Z) : str :=
  if z <? 0 then 45 :: 48 :: 120 :: hex_digits (Z.to_nat (Z.log2 (- z)) + 1) (- z) []
  else 48 :: 120 :: hex_digits (Z.to_nat (Z.log2 z) + 1) z [].
Definition hex_value (d : Z) : option Z :=
  if (48 <=? d) && (d <=? 57) then Some (d - 48)
  else if (97 <=? d) && (d <=? 102) then Some (d - 87)
  else if (65 <=? d) && (d <=? 70) then Some (d - 55)
  else None.
Fixpoint parse_hex (s : str) (acc : Z) : option Z :=
  match s with
  | [] => Some acc
  | d :: r => match hex_value d with Some v => parse_hex r (Z.shiftl acc 4 + v) | None => None end   (* acc * 16 + v *)
  end.

Definition bit_length (z : Z) : Z := if z =? 0 then 0 else Z.log2 (Z.abs z) + 1.
Definition MAX_DECIMAL_BITS : Z := 2048.
Definition int_text (z : Z) : str := if bit_length z >? MAX_DECIMAL_BITS then hex_text z else decimal z.
Definition starts_0x (s : str) : bool :=
  match s with a :: b :: _ => (a =? 48) && (b =? 120) | _ => false end.
Definition parse_int_text (s : str) : option Z :=
  if starts_0x s then
    match skipn 2 s with [] => None | r => parse_hex r 0 end
  else
    match s with
    | a :: r =>
        if (a =? 45) && starts_0x r then
          match skipn 2 r with [] => None | r' => option_map Z.opp (parse_hex r' 0) end
        else parse_int s
    | [] => parse_int s
    end.


(** * to json *)
Definition has_surrogate (s : str) : bool := existsb (fun ch => (55296 <=? ch) && (ch <=? 57343)) s.
Definition py_repr (s : str) : str := s.               (* repr(), canonicalised by the harness *)
Definition literal_eval (s : str) : str := s.
Definition b64encode (b : list Z) : str := b.          (* base64, canonicalised by the harness *)
Definition b64decode (s : str) : list Z := s.

Definition float_to_json (bits : Z) : json :=
  if float_is_inf bits then
    JObj [(lit "float", JStr (if bits =? 9218868437227405312 then lit "inf" else lit "-inf"))]
  else if float_is_nan bits then JObj [(lit "float", JStr (lit "nan"))]
  else JFloat bits.
Definition int_to_json (z : Z) : json :=
  if (z <? MIN_INTEGER) || (z >? MAX_INTEGER) then JObj [(lit "int", JStr (int_text z))] else JInt z.
Definition str_to_json (s : str) : json :=
  if has_surrogate s then JObj [(lit "string", JStr (py_repr s))] else JStr s.

Fixpoint iconst_to_json (k : iconst) : json :=
  match k with
  | INone => JNull
  | IBool b => JBool b
  | IInt z => int_to_json z
  | IFloat b => float_to_json b
  | IComplex r i => JObj [(lit "real", float_to_json r); (lit "imag", float_to_json i)]
  | IStr s => str_to_json s
  | IBytes b => JObj [(lit "bytes", JStr (b64encode b))]
  | IEllipsis => JObj [(lit "type", JStr (lit "ellipsis"))]
  | ITuple l => JList (map iconst_to_json l)
  | IFrozenset l => JObj [(lit "frozenset", JList (map iconst_to_json l))]
  end.

Definition opt_field {A} (name : string) (f : A -> json) (o : option A) : list (str * json) :=
  match o with Some x => [(lit name, f x)] | None => [] end.
Definition list_field {A} (name : string) (f : A -> json) (l : list A) : list (str * json) :=
  match l with [] => [] | _ => [(lit name, JList (map f l))] end.
Definition bool_field (name : string) (b : bool) : list (str * json) :=
  if b then [(lit name, JBool true)] else [].

Definition args_is_default (a : args) : bool :=
  match a_posonly a, a_poskw a, a_varpos a, a_kwonly a, a_varkw a with
  | [], [], None, [], None => true
  | _, _, _, _, _ => false
  end.
Definition args_to_json (a : args) : json :=
  JObj (list_field "positional_only" str_to_json (a_posonly a)
        ++ list_field "positional_or_keyword" str_to_json (a_poskw a)
        ++ opt_field "var_positional" str_to_json (a_varpos a)
        ++ list_field "keyword_only" str_to_json (a_kwonly a)
        ++ opt_field "var_keyword" str_to_json (a_varkw a)).
Definition fntype_name (t : fntype) : str :=
  match t with FT_GENERATOR => lit "GENERATOR" | FT_COROUTINE => lit "COROUTINE"
             | FT_ASYNC_GENERATOR => lit "ASYNC_GENERATOR" end.
Definition function_to_json (f : function) : json :=
  JObj ((if args_is_default (fn_args f) then [] else [(lit "args", args_to_json (fn_args f))])
        ++ opt_field "docstring" str_to_json (fn_doc f)
        ++ opt_field "type" (fun t => JStr (fntype_name t)) (fn_type f)).
Definition addline_to_json (a : addline) : json :=
  JObj ((lit "line", match al_line a with Some l => int_to_json l | None => JNull end)
        :: list_field "additional_offsets" int_to_json (al_offs a)).

Section ToJson.
  Context {C : Type} (cj : C -> json).
  Definition arg_to_json (a : arg_ C) : json :=
    match a with
    | AInt z => int_to_json z
    | AJump t r => JObj ((lit "target", int_to_json t) :: bool_field "relative" r)
    | AName s ov => JObj ((lit "name", str_to_json s) :: opt_field "_index_override" int_to_json ov)
    | AVarname s ov => JObj ((lit "varname", str_to_json s) :: opt_field "_index_override" int_to_json ov)
    | AConst k ov => JObj ((lit "constant", cj k) :: opt_field "_index_override" int_to_json ov)
    | AFreevar s => JObj [(lit "freevar", str_to_json s)]
    | ACellvar s ov => JObj ((lit "cellvar", str_to_json s) :: opt_field "_index_override" int_to_json ov)
    | ANoArg z => JObj (if z =? 0 then [] else [(lit "_arg", int_to_json z)])
    end.
  Definition arg_is_default (a : arg_ C) : bool :=
    match a with ANoArg z => z =? 0 | _ => false end.
  Definition instr_to_json (i : instr_ C) : json :=
    JObj ((lit "name", JStr [i_name i])
          :: (if arg_is_default (i_arg i) then [] else [(lit "arg", arg_to_json (i_arg i))])
          ++ opt_field "_n_args_override" int_to_json (i_nargs i)
          ++ opt_field "line_number" int_to_json (i_line i)
          ++ list_field "_line_offsets_override" int_to_json (i_lineoffs i)).
  Definition cd_to_json_with (d : code_data_ C) : json :=
    JObj ([(lit "blocks", JList (map (fun b => JList (map instr_to_json b)) (cd_blocks d)));
           (lit "filename", str_to_json (cd_filename d));
           (lit "first_line_number", int_to_json (cd_firstline d));
           (lit "name", str_to_json (cd_name d));
           (lit "stacksize", int_to_json (cd_stacksize d))]
          ++ opt_field "type" function_to_json (cd_type d)
          ++ list_field "freevars" str_to_json (cd_freevars d)
          ++ bool_field "future_annotations" (cd_future_annotations d)
          ++ bool_field "_nested" (cd_nested d)
          ++ opt_field "_additional_line" addline_to_json (cd_addline d)
          ++ list_field "_additional_args" arg_to_json (cd_addargs d)).
End ToJson.

Fixpoint const_to_json (k : const) : json :=
  match k with
  | KInner i => iconst_to_json i
  | KCode d => cd_to_json_with const_to_json d
  end.
Definition code_data_to_json : code_data -> json := cd_to_json_with const_to_json.

(** * from json *)

Fixpoint jget (f : list (str * json)) (k : str) : option json :=
  match f with
  | [] => None
  | (k', v) :: r => if str_eqb k' k then Some v else jget r k
  end.
Definition jhas (f : list (str * json)) (k : string) : bool :=
  match jget f (lit k) with Some _ => true | None => false end.
Definition keys_within (f : list (str * json)) (allowed : list string) : bool :=
  forallb (fun kv : str * json => existsb (fun a => str_eqb (fst kv) (lit a)) allowed) f.

(* string_from_json *)
Definition string_from_json (j : json) : res str :=
  match j with
  | JStr s => OK s
  | JObj f => match jget f (lit "string") with
              | Some (JStr s) => OK (literal_eval s)
              | _ => Err TypeError
              end
  | _ => Err TypeError
  end.
Definition strings_from_json (j : json) : res (list str) :=
  match j with JList l => mapM string_from_json l | _ => Err TypeError end.
Definition int_from_json (j : json) : res Z := match j with JInt z => OK z | _ => Err TypeError end.
Definition ints_from_json (j : json) : res (list Z) :=
  match j with JList l => mapM int_from_json l | _ => Err TypeError end.
Definition opt_get {A} (f : list (str * json)) (k : string) (p : json -> res A) : res (option A) :=
  match jget f (lit k) with
  | None => OK None
  | Some j => match p j with OK v => OK (Some v) | Err e => Err e end
  end.
Definition def_get {A} (f : list (str * json)) (k : string) (p : json -> res A) (d : A) : res A :=
  match jget f (lit k) with None => OK d | Some j => p j end.

(* Args from keyword arguments *)
Definition args_from_json (j : json) : res args :=
  match j with
  | JObj f =>
      if negb (keys_within f ["positional_only"; "positional_or_keyword"; "var_positional";
                               "keyword_only"; "var_keyword"]%string) then Err TypeError else
      match def_get f "positional_only" strings_from_json [],
            def_get f "positional_or_keyword" strings_from_json [],
            opt_get f "var_positional" string_from_json,
            def_get f "keyword_only" strings_from_json [],
            opt_get f "var_keyword" string_from_json with
      | OK a, OK b, OK c, OK d, OK e => OK {| a_posonly := a; a_poskw := b; a_varpos := c; a_kwonly := d; a_varkw := e |}
      | _, _, _, _, _ => Err TypeError
      end
  | _ => Err AttributeError
  end.
Definition fntype_from_json (j : json) : res fntype :=
  match j with
  | JStr s => if str_eqb s (lit "GENERATOR") then OK FT_GENERATOR
              else if str_eqb s (lit "COROUTINE") then OK FT_COROUTINE
              else if str_eqb s (lit "ASYNC_GENERATOR") then OK FT_ASYNC_GENERATOR
              else Err ValueError
  | _ => Err TypeError
  end.
Definition function_from_json (j : json) : res function :=
  match j with
  | JObj f =>
      if negb (keys_within f ["args"; "docstring"; "type"]%string) then Err TypeError else
      match def_get f "args" args_from_json empty_args, opt_get f "docstring" string_from_json,
            opt_get f "type" fntype_from_json with
      | OK a, OK d, OK t => OK (mkFunction a d t)
      | _, _, _ => Err TypeError
      end
  | _ => Err TypeError
  end.
Definition addline_from_json (j : json) : res addline :=
  match j with
  | JObj f =>
      if negb (keys_within f ["line"; "additional_offsets"]%string) then Err TypeError else
      match jget f (lit "line") with
      | None => Err TypeError
      | Some JNull =>
          match def_get f "additional_offsets" ints_from_json [] with
          | OK o => OK (mkAddline None o) | Err e => Err e end
      | Some (JInt l) =>
          match def_get f "additional_offsets" ints_from_json [] with
          | OK o => OK (mkAddline (Some l) o) | Err e => Err e end
      | Some _ => Err TypeError
      end
  | _ => Err AttributeError
  end.

(* The recursive loaders see a document bottom-up: every node is given all the readings the loaders
   may ask of it (as a constant, an argument, an instruction, a code object, lists of those). *)
Record interp := mkInterp {
  as_const : res iconst;                         (* constant_value_from_json *)
  as_arg : res arg;                              (* arg_from_json *)
  as_instr : res instruction;                    (* instruction_from_json *)
  as_cd : res code_data;                         (* code_data_from_json *)
  as_instrs : res (list instruction);
  as_blocks : res (list (list instruction));
  as_args : res (list arg)
}.
Definition no_interp (e : exn) : interp :=
  mkInterp (Err e) (Err e) (Err e) (Err e) (Err e) (Err e) (Err e).

Fixpoint iget (f : list (str * interp)) (k : str) : option interp :=
  match f with
  | [] => None
  | (k', v) :: r => if str_eqb k' k then Some v else iget r k
  end.

Definition float_from_json (j : json) : res Z :=
  match j with
  | JFloat b => OK b
  | JObj f => match jget f (lit "float") with
              | Some (JStr s) =>
                  if str_eqb s (lit "inf") then OK 9218868437227405312
                  else if str_eqb s (lit "-inf") then OK 18442240474082181120
                  else if str_eqb s (lit "nan") then OK 9221120237041090560
                  else Err NotImplementedError
              | _ => Err TypeError
              end
  | _ => Err TypeError
  end.

Definition const_of_obj (f : list (str * json)) (ci : list (str * interp)) : res iconst :=
  if jhas f "int" then
    match jget f (lit "int") with
    | Some (JStr s) => match parse_int_text s with Some z => OK (IInt z) | None => Err ValueError end
    | _ => Err TypeError
    end
  else if jhas f "float" then
    match float_from_json (JObj f) with OK b => OK (IFloat b) | Err e => Err e end
  else if jhas f "string" then
    match jget f (lit "string") with Some (JStr s) => OK (IStr (literal_eval s)) | _ => Err ValueError end
  else if match jget f (lit "type") with Some (JStr s) => str_eqb s (lit "ellipsis") | _ => false end
  then OK IEllipsis
  else if jhas f "real" then
    match jget f (lit "real"), jget f (lit "imag") with
    | Some r, Some i =>
        match float_from_json r, float_from_json i with
        | OK a, OK b => OK (IComplex a b)
        | _, _ => Err TypeError
        end
    | _, _ => Err KeyError
    end
  else if jhas f "bytes" then
    match jget f (lit "bytes") with Some (JStr s) => OK (IBytes (b64decode s)) | _ => Err TypeError end
  else if jhas f "frozenset" then
    match iget ci (lit "frozenset") with
    | Some c => match as_const c with OK (ITuple l) => OK (IFrozenset l) | OK _ => Err TypeError | Err e => Err e end
    | None => Err KeyError
    end
  else Err NotImplementedError.

Definition name_arg (f : list (str * json)) (key : string) (allowed : list string)
  (mk : str -> option Z -> arg) : res arg :=
  if negb (keys_within f allowed) then Err TypeError else
  match jget f (lit key) with
  | None => Err TypeError
  | Some j =>
      match string_from_json j, opt_get f "_index_override" int_from_json with
      | OK s, OK ov => OK (mk s ov)
      | _, _ => Err TypeError
      end
  end.

Definition arg_of_obj (f : list (str * json)) (ci : list (str * interp)) : res arg :=
  if jhas f "target" then
    if negb (keys_within f ["target"; "relative"]%string) then Err TypeError else
    match jget f (lit "target"), def_get f "relative" (fun j => match j with JBool b => OK b | _ => Err TypeError end) false with
    | Some (JInt t), OK r => OK (AJump t r)
    | _, _ => Err TypeError
    end
  else if jhas f "name" then name_arg f "name" ["name"; "_index_override"]%string AName
  else if jhas f "varname" then name_arg f "varname" ["varname"; "_index_override"]%string AVarname
  else if jhas f "constant" then
    if negb (keys_within f ["constant"; "_index_override"]%string) then Err TypeError else
    match jget f (lit "constant"), iget ci (lit "constant"), opt_get f "_index_override" int_from_json with
    | Some raw, Some c, OK ov =>
        if match raw with JObj g => jhas g "filename" | _ => false end
        then match as_cd c with OK d => OK (AConst (KCode d) ov) | Err e => Err e end
        else match as_const c with OK k => OK (AConst (KInner k) ov) | Err e => Err e end
    | _, _, _ => Err TypeError
    end
  else if jhas f "freevar" then name_arg f "freevar" ["freevar"]%string (fun s _ => AFreevar s)
  else if jhas f "cellvar" then name_arg f "cellvar" ["cellvar"; "_index_override"]%string ACellvar
  else if jhas f "_arg" then
    if negb (keys_within f ["_arg"]%string) then Err TypeError else
    match jget f (lit "_arg") with Some (JInt z) => OK (ANoArg z) | _ => Err TypeError end
  else Err ValueError.

Definition instr_of_obj (f : list (str * json)) (ci : list (str * interp)) : res instruction :=
  if negb (keys_within f ["name"; "arg"; "_n_args_override"; "line_number"; "_line_offsets_override"]%string)
  then Err TypeError else
  match jget f (lit "name") with
  | Some (JStr [n]) =>
      match (match iget ci (lit "arg") with Some c => as_arg c | None => OK (ANoArg 0) end),
            opt_get f "_n_args_override" int_from_json, opt_get f "line_number" int_from_json,
            def_get f "_line_offsets_override" ints_from_json [] with
      | OK a, OK n_, OK l, OK o => OK (mkInstr n a n_ l o)
      | Err e, _, _, _ => Err e
      | _, _, _, _ => Err TypeError
      end
  | _ => Err TypeError
  end.

Definition cd_of_obj (f : list (str * json)) (ci : list (str * interp)) : res code_data :=
  if negb (keys_within f ["blocks"; "filename"; "first_line_number"; "name"; "stacksize"; "type";
                          "freevars"; "future_annotations"; "_nested"; "_additional_line";
                          "_additional_args"]%string) then Err TypeError else
  match iget ci (lit "blocks"), jget f (lit "filename"), jget f (lit "first_line_number"),
        jget f (lit "name"), jget f (lit "stacksize") with
  | Some b, Some fnm, Some (JInt fl), Some nm, Some (JInt ss) =>
      match as_blocks b, string_from_json fnm, string_from_json nm,
            opt_get f "type" function_from_json, def_get f "freevars" strings_from_json [],
            def_get f "future_annotations" (fun j => match j with JBool x => OK x | _ => Err TypeError end) false,
            def_get f "_nested" (fun j => match j with JBool x => OK x | _ => Err TypeError end) false,
            opt_get f "_additional_line" addline_from_json,
            (match iget ci (lit "_additional_args") with Some c => as_args c | None => OK [] end) with
      | OK blocks, OK filename, OK name, OK tp, OK fv, OK fa, OK ne, OK al, OK aa =>
          OK (mkCD blocks filename fl name ss tp fv fa ne al aa)
      | Err e, _, _, _, _, _, _, _, _ => Err e
      | _, _, _, _, _, _, _, _, Err e => Err e
      | _, _, _, _, _, _, _, _, _ => Err TypeError
      end
  | _, _, _, _, _ => Err TypeError
  end.

Fixpoint interp_json (j : json) : interp :=
  match j with
  | JNull => mkInterp (OK INone) (Err ValueError) (Err ValueError) (Err ValueError)
                      (Err TypeError) (Err TypeError) (Err TypeError)
  | JBool b => mkInterp (OK (IBool b)) (Err ValueError) (Err ValueError) (Err ValueError)
                        (Err TypeError) (Err TypeError) (Err TypeError)
  | JInt z => mkInterp (OK (IInt z)) (OK (AInt z)) (Err ValueError) (Err ValueError)
                       (Err TypeError) (Err TypeError) (Err TypeError)
  | JFloat b => mkInterp (OK (IFloat b)) (Err ValueError) (Err ValueError) (Err ValueError)
                         (Err TypeError) (Err TypeError) (Err TypeError)
  | JStr s => mkInterp (OK (IStr s)) (Err ValueError) (Err ValueError) (Err ValueError)
                       (Err TypeError) (Err TypeError) (Err TypeError)
  | JList l =>
      let cs := map interp_json l in
      mkInterp (match mapM as_const cs with OK ks => OK (ITuple ks) | Err e => Err e end)
               (Err ValueError) (Err ValueError) (Err ValueError)
               (mapM as_instr cs) (mapM as_instrs cs) (mapM as_arg cs)
  | JObj f =>
      let ci := (fix go (l : list (str * json)) : list (str * interp) :=
                   match l with
                   | [] => []
                   | (k, v) :: r => (k, interp_json v) :: go r
                   end) f in
      mkInterp (const_of_obj f ci) (arg_of_obj f ci) (instr_of_obj f ci) (cd_of_obj f ci)
               (Err TypeError) (Err TypeError) (Err TypeError)
  end.

Definition code_data_from_json (j : json) : res code_data :=
  match j with
  | JObj _ => as_cd (interp_json j)
  | _ => Err ValueError
  end.
