(* Model of code_data/_line_mapping.py (both formats; [lt] is the is_linetable / USE_LINETABLE flag).
   Expanded items are (line_offset, bytecode_offset); collapsed items may have no line (None). *)
From PCD Require Import Base.PyBase.

Definition eitem := (Z * Z)%type.            (* LineTableItem: line_offset, bytecode_offset *)
Definition citem := (option Z * Z)%type.     (* CollapsedLineTableItem *)

(* LineMapping: two insertion ordered dicts *)
Record linemap := {
  lm_lines : odict (option Z);      (* offset_to_line *)
  lm_adds : odict (list Z)          (* offset_to_additional_line_offsets *)
}.
Definition empty_linemap := {| lm_lines := []; lm_adds := [] |}.

(** * Stage 1: bytes <-> expanded items *)

(* int.from_bytes([b], "big", signed=True) *)
Definition signed_byte (b : Z) : Z := if b <? 128 then b else b - 256.

Fixpoint bytes_to_items (b : list Z) : res (list eitem) :=
  match b with
  | [] => OK []
  | [_] => Err IndexError                       (* b[i + 1] past the end *)
  | bc :: ln :: r =>
      match bytes_to_items r with
      | OK rest => OK ((signed_byte ln, bc) :: rest)
      | Err e => Err e
      end
  end.

Definition byte_ok (b : Z) : bool := (0 <=? b) && (b <=? 255).

Fixpoint items_to_bytes (l : list eitem) : res (list Z) :=
  match l with
  | [] => OK []
  | (ln, bc) :: r =>
      if byte_ok bc then
        match items_to_bytes r with
        | OK rest => OK (bc :: (ln mod 256) :: rest)      (* line_offset & 255 *)
        | Err e => Err e
        end
      else Err ValueError                                (* bytes() of a value outside range(256) *)
  end.

(** * Stage 2: expanded <-> collapsed *)

Definition to_citem (lt : bool) (i : eitem) : citem :=
  let '(ln, bc) := i in ((if lt && (ln =? -128) then None else Some ln), bc).

Definition opt_is_zero (o : option Z) : bool :=
  match o with Some z => z =? 0 | None => false end.
Definition opt_is_some {A} (o : option A) : bool :=
  match o with Some _ => true | None => false end.

Definition max_bc (lt : bool) : Z := if lt then 254 else 255.
Definition min_line (lt : bool) : Z := if lt then -127 else -128.

Definition bytecode_offset_split (lt : bool) (prev item : citem) : bool :=
  let '(pl, pb) := prev in
  let '(il, ib) := item in
  opt_is_zero (if lt then il else pl)
  && (pb >=? max_bc lt)
  && negb (ib =? 0)
  && opt_is_some pl.

Definition line_offset_split (lt : bool) (prev item : citem) : bool :=
  let '(pl, pb) := prev in
  let '(il, ib) := item in
  ((if lt then pb else ib) =? 0)
  && match pl with
     | None => false
     | Some p =>
         ((p >=? 127) || (p <=? min_line lt))
         && match il with
            | None => false
            | Some i => if p >? 0 then i >? 0 else i <? 0
            end
     end.

(* del collapsed_items[i]; if item.line_offset: prev.line_offset += item.line_offset;
   prev.bytecode_offset += item.bytecode_offset.  Only reached when one of the two
   conditions holds, both of which require prev.line_offset is not None. *)
Definition merge_items (prev item : citem) : citem :=
  let '(pl, pb) := prev in
  let '(il, ib) := item in
  (match il, pl with
   | Some i, Some p => if i =? 0 then Some p else Some (p + i)
   | _, _ => pl
   end, pb + ib).

(* The loop runs from the last index down to 1 and looks at (i-1, i); the entry at i has
   by then absorbed everything behind it, so it is a right fold. *)
Definition collapse_step (lt : bool) (prev : citem) (acc : list citem) : list citem :=
  match acc with
  | [] => [prev]
  | item :: tl =>
      if bytecode_offset_split lt prev item || line_offset_split lt prev item
      then merge_items prev item :: tl
      else prev :: acc
  end.

Definition collapse_items (lt : bool) (items : list eitem) : list citem :=
  fold_right (collapse_step lt) [] (map (to_citem lt) items).

(* number of iterations of [while v > m: v -= m] (m > 0) *)
Definition nsplit (v m : Z) : Z := if v >? m then (v - 1) / m else 0.

Definition lineval (l : option Z) : Z := match l with None => -128 | Some z => z end.

Definition zrepeat {A} (x : A) (n : Z) : list A := repeat x (Z.to_nat n).

(* state of the per-item expansion: line_offset, bytecode_offset, emitted_extra *)
Definition xstate := (option Z * Z * bool)%type.

(* expand_bytecode(): while bytecode_offset > MAX_BYTECODE: emit ...  (closed form of the loop) *)
Definition expand_bytecode (lt : bool) (s : xstate) : list eitem * xstate :=
  let '(line, bc, extra) := s in
  let n := nsplit bc (max_bc lt) in
  if n =? 0 then ([], s)
  else
    let first := if lt then lineval line else 0 in
    let later := if lt then (match line with None => -128 | Some _ => 0 end) else 0 in
    ((first, max_bc lt) :: zrepeat (later, max_bc lt) (n - 1),
     ((if lt then (match line with None => None | Some _ => Some 0 end) else line),
      bc - n * max_bc lt, true)).

(* expand_line(): the two while loops over the line offset (closed form) *)
Definition expand_line (lt : bool) (s : xstate) : list eitem * xstate :=
  let '(line, bc, extra) := s in
  match line with
  | None => ([], s)
  | Some l =>
      let np := nsplit l 127 in
      if negb (np =? 0) then
        ((127, (if lt then 0 else bc)) :: zrepeat (127, 0) (np - 1),
         (Some (l - np * 127), (if lt then bc else 0), true))
      else
        let m := - min_line lt in
        let nn := nsplit (- l) m in
        if negb (nn =? 0) then
          ((min_line lt, (if lt then 0 else bc)) :: zrepeat (min_line lt, 0) (nn - 1),
           (Some (l + nn * m), (if lt then bc else 0), true))
        else ([], s)
  end.

Definition expand_item (lt : bool) (it : citem) : list eitem :=
  let s0 : xstate := (fst it, snd it, false) in
  let '(e1, s1) := if lt then expand_line lt s0 else expand_bytecode lt s0 in
  let '(e2, s2) := if lt then expand_bytecode lt s1 else expand_line lt s1 in
  let '(line, bc, extra) := s2 in
  e1 ++ e2 ++
  (if negb (opt_is_zero line) || negb (bc =? 0) || negb extra then [(lineval line, bc)] else []).

Definition expand_items (lt : bool) (items : list citem) : list eitem :=
  flat_map (expand_item lt) items.

(** * Stage 3: collapsed items <-> mapping *)

(* additional[bo].append(x) on a defaultdict(list) *)
Definition adds_append (d : odict (list Z)) (k x : Z) : odict (list Z) :=
  match oget d k with
  | Some l => oset d k (l ++ [x])
  | None => oset d k [x]
  end.

(* is_linetable branch *)
Fixpoint items_to_mapping_lt (items : list citem) (cur_line bo : Z)
  (m : odict (option Z)) : odict (option Z) :=
  match items with
  | [] => m
  | (il, ib) :: r =>
      let cur' := match il with Some d => cur_line + d | None => cur_line end in
      let v := match il with Some _ => Some cur' | None => None end in
      let m' := fold_left (fun acc i => oset acc i v) (range2 bo (bo + ib)) m in
      items_to_mapping_lt r cur' (bo + ib) m'
  end.

(* inner while: consume the zero-width items that follow *)
Fixpoint consume_zero_width (items : list citem) (bo cur_line : Z) (adds : odict (list Z))
  : res (list citem * Z * odict (list Z)) :=
  match items with
  | (il, ib) :: r =>
      if ib =? 0 then
        match il with
        | Some lo => consume_zero_width r bo (cur_line + lo) (adds_append adds bo lo)
        | None => Err TypeError
        end
      else OK (items, cur_line, adds)
  | [] => OK (items, cur_line, adds)
  end.

(* co_lnotab branch: one iteration of the outer while per unit of fuel *)
Fixpoint items_to_mapping_lnotab (fuel : nat) (items : list citem) (max_offset : Z)
  (last_bo cur_line bo : Z) (lines : odict (option Z)) (adds : odict (list Z)) : res linemap :=
  if negb ((bo <? max_offset) || negb (match items with [] => true | _ => false end))
  then OK {| lm_lines := lines; lm_adds := adds |}
  else
    match fuel with
    | O => Err OutOfFuel
    | S fuel' =>
        match items with
        | [] =>
            items_to_mapping_lnotab fuel' items max_offset last_bo cur_line (bo + 2)
              (oset lines bo (Some cur_line)) adds
        | (il, ib) :: r =>
            let step1 :=
              if bo - last_bo =? ib then
                match il with
                | Some lo =>
                    OK (r, cur_line + lo, bo,
                        if lo =? 0 then adds_append adds bo 0 else adds)
                | None => Err TypeError
                end
              else OK (items, cur_line, last_bo, adds) in
            match step1 with
            | Err e => Err e
            | OK (items1, cur1, last1, adds1) =>
                match consume_zero_width items1 bo cur1 adds1 with
                | Err e => Err e
                | OK (items2, cur2, adds2) =>
                    items_to_mapping_lnotab fuel' items2 max_offset last1 cur2 (bo + 2)
                      (oset lines bo (Some cur2)) adds2
                end
            end
        end
    end.

Definition lnotab_fuel (items : list citem) (max_offset : Z) : nat :=
  Z.to_nat (Z.max 0 max_offset / 2 + sumZ (map (fun it : citem => Z.abs (snd it)) items) / 2 + 2)
  + length items.

Definition items_to_mapping (items : list citem) (max_offset : Z) (lt : bool) : res linemap :=
  if lt then OK {| lm_lines := items_to_mapping_lt items 0 0 []; lm_adds := [] |}
  else items_to_mapping_lnotab (lnotab_fuel items max_offset) items max_offset 0 0 0 [] [].

(* co_lnotab branch of mapping_to_items *)
Fixpoint mapping_to_items_lnotab (lines : odict (option Z)) (adds : odict (list Z))
  (last_line last_bo : Z) : res (list citem) :=
  match lines with
  | [] => OK []
  | (bo, None) :: _ => Err TypeError                   (* cast(int, None) - last_line_number *)
  | (bo, Some line) :: r =>
      let additional := match oget adds bo with Some l => l | None => [] end in
      let first := line - last_line - sumZ additional in
      let all := if first =? 0 then additional else first :: additional in
      let emitted :=
        match all with
        | [] => []
        | lo :: rest => (Some lo, bo - last_bo) :: map (fun x => (Some x, 0)) rest
        end in
      let last_bo' := match all with [] => last_bo | _ => bo end in
      match mapping_to_items_lnotab r adds line last_bo' with
      | OK rest => OK (emitted ++ rest)
      | Err e => Err e
      end
  end.

(* state of the section walk: section_bytecode_offset, section_line_number,
   last_section_line_number, section_line_number_diff, last key seen *)
Fixpoint mapping_to_items_lt (lines : odict (option Z))
  (sec_bo : Z) (sec_line : option Z) (last_sec_line : Z) (diff : option Z) (last_key : Z)
  : list citem :=
  match lines with
  | [] => [(diff, last_key + 2 - sec_bo)]
  | (bo, line) :: r =>
      if option_eqb Z.eqb line sec_line then
        mapping_to_items_lt r sec_bo sec_line last_sec_line diff bo
      else
        (diff, bo - sec_bo) ::
        mapping_to_items_lt r bo line
          (match line with Some l => l | None => last_sec_line end)
          (match line with Some l => Some (l - last_sec_line) | None => None end)
          bo
  end.

Definition mapping_to_items (m : linemap) (lt : bool) : res (list citem) :=
  if lt then
    match lm_lines m with
    | [] => Err NameError              (* bytecode_offset is unbound after an empty loop *)
    | (bo, line) :: r =>
        OK (mapping_to_items_lt r bo line (match line with Some l => l | None => 0 end) line bo)
    end
  else mapping_to_items_lnotab (lm_lines m) (lm_adds m) 0 0.

(** * The two entry points *)

Definition to_line_mapping (lt : bool) (table : list Z) (len_code : Z) : res linemap :=
  match bytes_to_items table with
  | Err e => Err e
  | OK items => items_to_mapping (collapse_items lt items) len_code lt
  end.

Definition from_line_mapping (lt : bool) (m : linemap) : res (list Z) :=
  match mapping_to_items m lt with
  | Err e => Err e
  | OK items => items_to_bytes (expand_items lt items)
  end.

(** * LineMapping methods *)

Definition keys_are_exactly {V} (d : odict V) (k : Z) : bool :=
  match d with [] => false | _ => forallb (fun k' => k' =? k) (okeys d) end.

Definition pop_additional_line (m : linemap) (next_offset : Z)
  : res (option (option Z * list Z) * linemap) :=
  let adds_ok :=
    match lm_adds m with
    | _ :: _ => keys_are_exactly (lm_adds m) next_offset
    | [] => true
    end in
  if negb adds_ok then Err NotImplementedError
  else
    match lm_lines m with
    | [] => OK (None, m)
    | _ :: _ =>
        if keys_are_exactly (lm_lines m) next_offset then
          match oget (lm_lines m) next_offset with
          | Some line =>
              OK (Some (line, match oget (lm_adds m) next_offset with Some l => l | None => [] end),
                  {| lm_lines := lm_lines m; lm_adds := odel (lm_adds m) next_offset |})
          | None => Err KeyError
          end
        else Err NotImplementedError
    end.

Definition add_additional_line (m : linemap) (line : option Z) (offs : list Z) (len_code : Z)
  : linemap :=
  {| lm_lines := oset (lm_lines m) len_code line;
     lm_adds := oset (lm_adds m) len_code offs |}.

Definition modify_line_offsets (m : linemap) (d : Z) : linemap :=
  {| lm_lines := map (fun kv : Z * option Z =>
                        (fst kv, match snd kv with Some l => Some (l + d) | None => None end))
                     (lm_lines m);
     lm_adds := lm_adds m |}.
