(* Reference graphs of a source tree (Gen/SrcDeps.v, regenerated from /repo/code_data on every run):
   successor lookup, a fuelled closure, the boolean closedness check and the policy of allowed nodes. *)
From Coq Require Import String List Bool.
Import ListNotations.
Open Scope string_scope.

Definition graph := list (string * list string).

Fixpoint succs (g : graph) (n : string) : list string :=
  match g with
  | [] => []
  | (k, v) :: r => if String.eqb k n then v else succs r n
  end.

Definition mem (x : string) (l : list string) : bool := existsb (String.eqb x) l.

(* worklist closure; the result is checked by [closedb], so the fuel only has to be large enough *)
Fixpoint reach (fuel : nat) (g : graph) (todo seen : list string) : list string :=
  match fuel with
  | O => seen
  | S f =>
      match todo with
      | [] => seen
      | x :: r => if mem x seen then reach f g r seen else reach f g (succs g x ++ r) (x :: seen)
      end
  end.

Definition closedb (g : graph) (s : list string) : bool :=
  forallb (fun n => forallb (fun m => mem m s) (succs g n)) s.

(* nodes of the package itself, and the external modules whose functions do not depend on the interpreter
   that runs them (pure data-structure helpers); everything else - sys, dis, opcode, platform, types, os,
   builtins such as repr / hash / compile, eval / exec / globals (ext:<dynamic>) - is not allowed *)
Definition allowed_prefixes : list string :=
  ["pkg:"; "ext:ast."; "ext:base64."; "ext:copy."; "ext:dataclasses."; "ext:math."; "ext:typing.";
   "ext:typing_extensions."; "ext:functools."; "ext:itertools."; "ext:collections."; "ext:operator.";
   "ext:numbers."; "ext:abc."; "ext:json."; "ext:__future__.annotations"].

Definition allowed (n : string) : bool := existsb (fun p => String.prefix p n) allowed_prefixes.

(* a path of references *)
Inductive path (g : graph) : string -> string -> Prop :=
| path_refl : forall n, path g n n
| path_step : forall a b c, In b (succs g a) -> path g b c -> path g a c.
