(* Model of code_data/_code_data.py (to_code_data / from_code_data), _normalize.py and the
   iteration methods of CodeData. *)
From PCD Require Import Base.PyBase Base.Cfg Model.Flags Model.Args Model.Data Model.Consts
  Model.LineTable Model.Blocks.

Definition FN_FLAGS : list flag := [NEWLOCALS; OPTIMIZED].
Definition FN_TYPE_FLAGS : list (flag * fntype) :=
  [(ASYNC_GENERATOR, FT_ASYNC_GENERATOR); (COROUTINE, FT_COROUTINE); (GENERATOR, FT_GENERATOR)].

Definition is_str_const (k : const) : bool :=
  match k with KInner (IStr _) => true | _ => false end.

(** * to_code_data *)

(* everything of to_code_data except the conversion of the constants (done by the caller, so
   that the recursion through nested code is structural) *)
Definition decode_code (c : cfg) (code : pycode) (constants : list const) : res code_data :=
  let posonly := if cfg_v38 c then co_posonlyargcount code else 0 in
  let len_code := zlen (co_code code) in
  match to_line_mapping (cfg_v310 c) (co_linetable code) len_code with
  | Err e => Err e
  | OK lm0 =>
  let lm := modify_line_offsets lm0 (co_firstlineno code) in
  match to_flags_data c (co_flags code) with
  | Err e => Err e
  | OK fl0 =>
  match args_from_input (co_argcount code) posonly (co_kwonlyargcount code) (co_varnames code) fl0 with
  | Err e => Err e
  | OK (a, fl1) =>
  let nofree_expected := match co_freevars code, co_cellvars code with [], [] => true | _, _ => false end in
  if negb (Bool.eqb (flag_mem NOFREE fl1) nofree_expected) then Err AssertionError else
  let fl2 := flag_remove NOFREE fl1 in
  let annotations := flag_mem F_annotations fl2 in
  let fl3 := flag_remove F_annotations fl2 in
  let nested := flag_mem NESTED fl3 in
  let fl4 := flag_remove NESTED fl3 in
  let fn_flags := filter (fun f => flag_mem f fl4) FN_FLAGS in
  match (match fn_flags with
         | [] => if negb (args_len a =? 0) then Err ValueError else OK (None, fl4)   (* raise, not assert: holds under python -O *)
         | [_; _] =>
             let docstring := match constants with
                              | KInner (IStr s) :: _ => Some s
                              | _ => None
                              end in
             let tps := filter (fun ft : flag * fntype => flag_mem (fst ft) fl4) FN_TYPE_FLAGS in
             match tps with
             | [] => OK (Some (mkFunction a docstring None),
                         flag_remove OPTIMIZED (flag_remove NEWLOCALS fl4))
             | [(f, t)] => OK (Some (mkFunction a docstring (Some t)),
                               flag_remove OPTIMIZED (flag_remove NEWLOCALS (flag_remove f fl4)))
             | _ => Err AssertionError
             end
         | _ => Err ValueError
         end) with
  | Err e => Err e
  | OK (block_type, fl5) =>
  match fl5 with
  | _ :: _ => Err ValueError                                  (* Unknown flags *)
  | [] =>
  match bytes_to_blocks key_eqb c (co_code code) lm (co_names code) (co_varnames code)
          (co_freevars code) (co_cellvars code) constants block_type a with
  | Err e => Err e
  | OK (blocks, additional, lm') =>
  match pop_additional_line lm' len_code with
  | Err e => Err e
  | OK (next_line, _) =>
      OK (mkCD blocks (co_filename code) (co_firstlineno code) (co_name code) (co_stacksize code)
               block_type (co_freevars code) annotations nested
               (match next_line with Some (l, offs) => Some (mkAddline l offs) | None => None end)
               additional)
  end end end end end end end.

Fixpoint to_const (c : cfg) (k : pyconst) : res const :=
  match k with
  | PInner i => OK (KInner i)
  | PCode code =>
      match mapM (to_const c) (co_consts code) with
      | Err e => Err e
      | OK ks => match decode_code c code ks with OK d => OK (KCode d) | Err e => Err e end
      end
  end.

Definition to_code_data (c : cfg) (code : pycode) : res code_data :=
  match mapM (to_const c) (co_consts code) with
  | Err e => Err e
  | OK ks => decode_code c code ks
  end.

(** * from_code_data *)

(* types.CodeType(...): what the constructor of 3.7-3.10 itself does to its arguments *)
Definition pycode_new (c : cfg) (argcount posonly kwonly nlocals stacksize flags : Z)
  (code : list Z) (consts : list pyconst) (names varnames : list str) (filename name : str)
  (firstlineno : Z) (table : list Z) (freevars cellvars : list str) : res pycode :=
  if (argcount <? posonly) || (posonly <? 0) || (kwonly <? 0) || (nlocals <? 0) || (stacksize <? 0)
     || (flags <? 0) || (argcount <? 0)
  then Err ValueError
  else
    let nofree := match freevars, cellvars with [], [] => true | _, _ => false end in
    let nf := match flag_value (cfg_flags c) NOFREE with Some v => v | None => 64 end in
    let flags' := if nofree then Z.lor flags nf else Z.land flags (Z.lnot nf) in
    OK (mkCode argcount posonly kwonly nlocals stacksize flags' code consts names varnames
               filename name firstlineno table freevars cellvars).

Definition pconst := (const * pyconst)%type.
Definition pkey_eqb (a b : pconst) : bool := key_eqb (fst a) (fst b).

Definition flags_union (a b : list flag) : list flag := fold_left (fun acc f => flag_add f acc) b a.

Definition encode_code (c : cfg) (d : code_data_ pconst) : res pycode :=
  let fl0 := match cd_type d with
             | Some f => flags_union FN_FLAGS
                           (match fn_type f with Some t => [fntype_flag t] | None => [] end)
             | None => []
             end in
  match blocks_to_bytes pkey_eqb (fun k => is_str_const (fst k)) (KInner INone, PInner INone)
          (fun s => (KInner (IStr s), PInner (IStr s)))
          c (cd_blocks d) (cd_addargs d) (cd_freevars d) (cd_type d) with
  | Err e => Err e
  | OK (code, lm0, names, varnames, cellvars, constants) =>
  let consts := map snd constants in
  let lm1 := match cd_addline d with
             | Some al => add_additional_line lm0 (al_line al) (al_offs al) (zlen code)
             | None => lm0
             end in
  match (match cd_type d with
         | Some f =>
             let '(ac, pc, kc, vn, fl) := args_to_input (fn_args f) fl0 in
             if list_eqb str_eqb (take (zlen vn) varnames) vn then OK (ac, pc, kc, fl)
             else Err AssertionError
         | None => OK (0, 0, 0, fl0)
         end) with
  | Err e => Err e
  | OK (argcount, posonly, kwonly, fl1) =>
  let fl2 := match cd_freevars d, cellvars with [], [] => flag_add NOFREE fl1 | _, _ => fl1 end in
  let fl3 := if cd_future_annotations d then flag_add F_annotations fl2 else fl2 in
  let fl4 := if cd_nested d then flag_add NESTED fl3 else fl3 in
  match from_flags_data c fl4 with
  | Err e => Err e
  | OK flags =>
  let lm2 := modify_line_offsets lm1 (- cd_firstline d) in
  match from_line_mapping (cfg_v310 c) lm2 with
  | Err e => Err e
  | OK table =>
      if negb (cfg_v38 c) && negb (posonly =? 0) then Err NotImplementedError
      else pycode_new c argcount posonly kwonly (zlen varnames) (cd_stacksize d) flags code consts
                      names varnames (cd_filename d) (cd_name d) (cd_firstline d) table
                      (cd_freevars d) cellvars
  end end end end.

(* map over the constants of the data classes, in the exception monad *)
Section MapM.
  Context {C D : Type} (f : C -> res D).
  Definition mapM_arg (a : arg_ C) : res (arg_ D) :=
    match a with
    | AConst k ov => match f k with OK k' => OK (AConst k' ov) | Err e => Err e end
    | AInt z => OK (AInt z)
    | AJump t r => OK (AJump t r)
    | AName s ov => OK (AName s ov)
    | AVarname s ov => OK (AVarname s ov)
    | AFreevar s => OK (AFreevar s)
    | ACellvar s ov => OK (ACellvar s ov)
    | ANoArg z => OK (ANoArg z)
    end.
  Definition mapM_instr (i : instr_ C) : res (instr_ D) :=
    match mapM_arg (i_arg i) with
    | OK a => OK (mkInstr (i_name i) a (i_nargs i) (i_line i) (i_lineoffs i))
    | Err e => Err e
    end.
  Definition mapM_cd (d : code_data_ C) : res (code_data_ D) :=
    match mapM (mapM mapM_instr) (cd_blocks d) with
    | Err e => Err e
    | OK bl =>
        match mapM mapM_arg (cd_addargs d) with
        | Err e => Err e
        | OK aa => OK (mkCD bl (cd_filename d) (cd_firstline d) (cd_name d) (cd_stacksize d)
                            (cd_type d) (cd_freevars d) (cd_future_annotations d) (cd_nested d)
                            (cd_addline d) aa)
        end
    end.
End MapM.

Fixpoint from_const (c : cfg) (k : const) : res pyconst :=
  match k with
  | KInner i => OK (PInner i)
  | KCode d =>
      match mapM_cd (fun k' => match from_const c k' with OK p => OK (k', p) | Err e => Err e end) d with
      | Err e => Err e
      | OK d' => match encode_code c d' with OK code => OK (PCode code) | Err e => Err e end
      end
  end.

Definition from_code_data (c : cfg) (d : code_data) : res pycode :=
  match from_const c (KCode d) with
  | OK (PCode code) => OK code
  | OK (PInner _) => Err TypeError
  | Err e => Err e
  end.

(** * normalize *)

Section Map.
  Context {C D : Type} (f : C -> D).
  Definition map_arg_norm (a : arg_ C) : arg_ D :=
    match a with
    | AConst k _ => AConst (f k) None
    | AName s _ => AName s None
    | AVarname s _ => AVarname s None
    | ACellvar s _ => ACellvar s None
    | ANoArg _ => ANoArg 0
    | AInt z => AInt z
    | AJump t r => AJump t r
    | AFreevar s => AFreevar s
    end.
  Definition map_instr_norm (i : instr_ C) : instr_ D :=
    mkInstr (i_name i) (map_arg_norm (i_arg i)) None (i_line i) [].
  Definition map_cd_norm (d : code_data_ C) : code_data_ D :=
    mkCD (map (map map_instr_norm) (cd_blocks d)) (cd_filename d) (cd_firstline d) (cd_name d)
         (cd_stacksize d) (cd_type d) (cd_freevars d) (cd_future_annotations d) false None [].
End Map.

Fixpoint normalize_const (k : const) : const :=
  match k with
  | KInner i => KInner i
  | KCode d => KCode (map_cd_norm normalize_const d)
  end.
Definition normalize (d : code_data) : code_data := map_cd_norm normalize_const d.

(** * iteration *)

Definition iter_code_data (d : code_data) : res (list code_data) :=
  match blocks_to_constants key_eqb is_str_const (KInner INone) (fun s => KInner (IStr s))
          (cd_blocks d) (cd_addargs d) (cd_type d) with
  | Err e => Err e
  | OK ks => OK (flat_map (fun k => match k with KCode x => [x] | KInner _ => [] end) ks)
  end.

(* all_code_data: itself, then recursively; fuel = nesting depth (a generator that raises part way
   is modelled as raising) *)
Fixpoint all_code_data (fuel : nat) (d : code_data) : res (list code_data) :=
  match fuel with
  | O => Err OutOfFuel
  | S f =>
      match iter_code_data d with
      | Err e => Err e
      | OK subs =>
          match mapM (all_code_data f) subs with
          | OK ls => OK (d :: concat ls)
          | Err e => Err e
          end
      end
  end.
