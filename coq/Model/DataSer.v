(* token serialisers for the data classes and code objects (see harness/encdata.py for the Python side) *)
From PCD Require Import Base.PyBase Base.Ser Base.Cfg Model.Flags Model.Args Model.FlagsSer Model.Data.

Fixpoint ser_iconst (k : iconst) : list Z :=
  match k with
  | INone => [0]
  | IBool b => [1; if b then 1 else 0]
  | IInt z => [2; z]
  | IFloat b => [3; b]
  | IComplex r i => [4; r; i]
  | IStr s => 5 :: ser_str s
  | IBytes b => 6 :: ser_list ser_Z b
  | IEllipsis => [7]
  | ITuple l => 8 :: zlen l :: flat_map ser_iconst l
  | IFrozenset l => 9 :: zlen l :: flat_map ser_iconst l
  end.

Section SerData.
  Context {C : Type} (ser_c : C -> list Z).
  Definition ser_arg (a : arg_ C) : list Z :=
    match a with
    | AInt z => [0; z]
    | AJump t r => [1; t; if r then 1 else 0]
    | AName s ov => 2 :: ser_str s ++ ser_opt ser_Z ov
    | AVarname s ov => 3 :: ser_str s ++ ser_opt ser_Z ov
    | AConst k ov => 4 :: ser_c k ++ ser_opt ser_Z ov
    | AFreevar s => 5 :: ser_str s
    | ACellvar s ov => 6 :: ser_str s ++ ser_opt ser_Z ov
    | ANoArg z => [7; z]
    end.
  Definition ser_instr (i : instr_ C) : list Z :=
    i_name i :: ser_arg (i_arg i) ++ ser_opt ser_Z (i_nargs i) ++ ser_opt ser_Z (i_line i)
    ++ ser_list ser_Z (i_lineoffs i).
  Definition ser_function (f : function) : list Z :=
    ser_args (fn_args f) ++ ser_opt ser_str (fn_doc f) ++ ser_opt (fun t => [fntype_id t]) (fn_type f).
  Definition ser_addline (a : addline) : list Z := ser_opt ser_Z (al_line a) ++ ser_list ser_Z (al_offs a).
  Definition ser_cd_with (d : code_data_ C) : list Z :=
    ser_list (ser_list ser_instr) (cd_blocks d) ++ ser_str (cd_filename d) ++ [cd_firstline d]
    ++ ser_str (cd_name d) ++ [cd_stacksize d] ++ ser_opt ser_function (cd_type d)
    ++ ser_list ser_str (cd_freevars d) ++ ser_bool (cd_future_annotations d) ++ ser_bool (cd_nested d)
    ++ ser_opt ser_addline (cd_addline d) ++ ser_list ser_arg (cd_addargs d).
End SerData.

Fixpoint ser_const (k : const) : list Z :=
  match k with
  | KInner i => 0 :: ser_iconst i
  | KCode d => 1 :: ser_cd_with ser_const d
  end.
Definition ser_cd : code_data -> list Z := ser_cd_with ser_const.

Definition ser_pycode_with {K} (ser_k : K -> list Z) (c : pycode_ K) : list Z :=
  [co_argcount c; co_posonlyargcount c; co_kwonlyargcount c; co_nlocals c; co_stacksize c; co_flags c]
  ++ ser_list ser_Z (co_code c) ++ ser_list ser_k (co_consts c) ++ ser_list ser_str (co_names c)
  ++ ser_list ser_str (co_varnames c) ++ ser_str (co_filename c) ++ ser_str (co_name c)
  ++ [co_firstlineno c] ++ ser_list ser_Z (co_linetable c) ++ ser_list ser_str (co_freevars c)
  ++ ser_list ser_str (co_cellvars c).
Fixpoint ser_pyconst (k : pyconst) : list Z :=
  match k with
  | PInner i => 0 :: ser_iconst i
  | PCode c => 1 :: ser_pycode_with ser_pyconst c
  end.
Definition ser_pycode : pycode -> list Z := ser_pycode_with ser_pyconst.
