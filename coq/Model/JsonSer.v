From Coq Require Import String.
From PCD Require Import Base.PyBase Base.Ser Model.Json.
Open Scope Z_scope.
Open Scope list_scope.

Fixpoint lex_leb (a b : list Z) : bool :=
  match a, b with
  | [], _ => true
  | _ :: _, [] => false
  | x :: xs, y :: ys => if x <? y then true else if y <? x then false else lex_leb xs ys
  end.
Fixpoint lex_insert (x : list Z) (l : list (list Z)) : list (list Z) :=
  match l with
  | [] => [x]
  | y :: r => if lex_leb x y then x :: l else y :: lex_insert x r
  end.
Definition lex_sort (l : list (list Z)) : list (list Z) := fold_right lex_insert [] l.

Definition is_frozenset_obj (f : list (str * json)) : bool :=
  match f with [(k, JList _)] => str_eqb k (lit "frozenset"%string) | _ => false end.

(* key order of objects is kept; the listing of a {"frozenset": [...]} is sorted (a set has no order) *)
Fixpoint ser_json (j : json) : list Z :=
  match j with
  | JNull => [0]
  | JBool b => [1; if b then 1 else 0]
  | JInt z => [2; z]
  | JFloat b => [3; b]
  | JStr s => 4 :: ser_str s
  | JList l => 5 :: zlen l :: flat_map ser_json l
  | JObj f =>
      match f with
      | [(k, JList l)] =>
          if str_eqb k (lit "frozenset"%string)
          then 6 :: 1 :: ser_str k ++ 5 :: zlen l :: concat (lex_sort (map ser_json l))
          else 6 :: 1 :: ser_str k ++ 5 :: zlen l :: flat_map ser_json l
      | _ => 6 :: zlen f :: (fix go (l : list (str * json)) : list Z :=
                               match l with
                               | [] => []
                               | (k, v) :: r => ser_str k ++ ser_json v ++ go r
                               end) f
      end
  end.
