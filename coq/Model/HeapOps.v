(* C12: a small imperative language for the statements of the JSON loaders that touch mutable
   containers, its concrete heap semantics, and the static check ("every mutation targets an object
   the function itself allocated") whose soundness is the purity theorem.  harness/translate_src.py
   regenerates the programs (Gen/SrcHeap.v) from code_data/_json_data.py on every run. *)
From Coq Require Import List Bool Arith Lia.
Import ListNotations.

Definition var := nat.

(* statements; expressions are abstracted to where their value comes from *)
Inductive hop :=
| HFresh (dst : var)                 (* dst = copy(e) | {..} | [..] | f(..): a newly allocated container
                                        (its items may still be objects of the input) *)
| HAlias (dst src : var)             (* dst = src *)
| HGet (dst src : var)               (* dst = src[k] | src.get(k) | an item while iterating src *)
| HMutate (target : var)             (* target[k] = e | del target[k] | target.update/append/pop/... *)
| HIf (a b : list hop)               (* if ..: a else: b   (either branch may run) *)
| HLoop (body : list hop).           (* for / while: body runs any number of times *)

(** * Concrete semantics *)
(* The heap is a list of objects; an object is the list of addresses of its items (scalars are
   irrelevant).  Addresses below [length h0] exist before the call. *)
Definition heap := list (list nat).
Definition env := var -> option nat.
Definition upd (e : env) (x : var) (a : option nat) : env := fun y => if Nat.eqb y x then a else e y.

(* one concrete step of an atomic statement; [choice] resolves which item / which new items *)
Inductive step : heap * env -> hop -> heap * env -> Prop :=
| SFresh : forall h e dst items,
    (* a new object whose items are arbitrary existing objects *)
    Forall (fun a => a < length h) items ->
    step (h, e) (HFresh dst) (h ++ [items], upd e dst (Some (length h)))
| SAlias : forall h e dst src,
    step (h, e) (HAlias dst src) (h, upd e dst (e src))
| SGet : forall h e dst src a items item,
    e src = Some a -> nth_error h a = Some items -> In item items ->
    step (h, e) (HGet dst src) (h, upd e dst (Some item))
| SGetMissing : forall h e dst src,
    (* the looked-up value is a scalar / absent *)
    step (h, e) (HGet dst src) (h, upd e dst None)
| SMutate : forall h e target a items',
    e target = Some a -> a < length h ->
    Forall (fun b => b < length h) items' ->
    step (h, e) (HMutate target)
         (firstn a h ++ [items'] ++ skipn (S a) h, e)
| SMutateNone : forall h e target,
    e target = None -> step (h, e) (HMutate target) (h, e).

Inductive exec : heap * env -> list hop -> heap * env -> Prop :=
| ENil : forall s, exec s [] s
| EAtom : forall s s1 s2 op r,
    step s op s1 -> exec s1 r s2 -> exec s (op :: r) s2
| EIfA : forall s s1 s2 a b r, exec s a s1 -> exec s1 r s2 -> exec s (HIf a b :: r) s2
| EIfB : forall s s1 s2 a b r, exec s b s1 -> exec s1 r s2 -> exec s (HIf a b :: r) s2
| ELoopDone : forall s s2 body r, exec s r s2 -> exec s (HLoop body :: r) s2
| ELoopIter : forall s s1 s2 body r,
    exec s body s1 -> exec s1 (HLoop body :: r) s2 -> exec s (HLoop body :: r) s2.

(** * The static check *)
(* abstract value of a variable: true = certainly bound to an object allocated by this call (or to
   nothing); false = may be an object that existed before the call *)
Definition aenv := list (var * bool).
Fixpoint alook (e : aenv) (x : var) : bool :=
  match e with [] => false | (y, b) :: r => if Nat.eqb y x then b else alook r x end.
Definition aset (e : aenv) (x : var) (b : bool) : aenv := (x, b) :: e.
Definition ajoin (vars : list var) (a b : aenv) : aenv :=
  map (fun x => (x, alook a x && alook b x)) vars.

Fixpoint vars_of_op (o : hop) : list var :=
  match o with
  | HFresh d => [d]
  | HAlias d s => [d; s]
  | HGet d s => [d; s]
  | HMutate t => [t]
  | HIf a b =>
      (fix go (l : list hop) : list var := match l with [] => [] | x :: r => vars_of_op x ++ go r end) a
      ++ (fix go (l : list hop) : list var := match l with [] => [] | x :: r => vars_of_op x ++ go r end) b
  | HLoop b =>
      (fix go (l : list hop) : list var := match l with [] => [] | x :: r => vars_of_op x ++ go r end) b
  end.
Definition vars_of (p : list hop) : list var := flat_map vars_of_op p.

(* abstract execution: (ok so far, abstract environment) *)
Fixpoint aexec (fuel : nat) (vars : list var) (p : list hop) (e : aenv) : bool * aenv :=
  match fuel with
  | O => (false, e)
  | S f =>
      match p with
      | [] => (true, e)
      | HFresh d :: r => aexec f vars r (aset e d true)
      | HAlias d s :: r => aexec f vars r (aset e d (alook e s))
      | HGet d s :: r => aexec f vars r (aset e d false)
      | HMutate t :: r => if alook e t then aexec f vars r e else (false, e)
      | HIf a b :: r =>
          let '(oka, ea) := aexec f vars a e in
          let '(okb, eb) := aexec f vars b e in
          if oka && okb then aexec f vars r (ajoin vars ea eb) else (false, e)
      | HLoop body :: r =>
          (* iterate the body's effect on the abstract environment to a fixpoint: at most one
             variable can drop from true to false per round, so |vars|+1 rounds suffice *)
          let iter :=
            (fix it (n : nat) (cur : aenv) : bool * aenv :=
               match n with
               | O => (true, cur)
               | S n' =>
                   let '(okb, eb) := aexec f vars body cur in
                   if okb then it n' (ajoin vars cur eb) else (false, cur)
               end) (S (length vars)) (ajoin vars e e) in
          let '(okl, el) := iter in
          if okl then
            (* the body must also be safe from the stable environment *)
            let '(okb, _) := aexec f vars body el in
            if okb then aexec f vars r el else (false, e)
          else (false, e)
      end
  end.

Fixpoint size_op (o : hop) : nat :=
  match o with
  | HIf a b =>
      2 + (fix go (l : list hop) : nat := match l with [] => 0 | x :: r => size_op x + go r end) a
        + (fix go (l : list hop) : nat := match l with [] => 0 | x :: r => size_op x + go r end) b
  | HLoop b =>
      2 + (fix go (l : list hop) : nat := match l with [] => 0 | x :: r => size_op x + go r end) b
  | _ => 1
  end.
Definition size (p : list hop) : nat := 1 + fold_right (fun o n => size_op o + n) 0 p.

(* the function's parameters are bound to input objects (abstract value false) *)
Definition safe (params : list var) (p : list hop) : bool :=
  let vars := params ++ vars_of p in
  fst (aexec (size p * (length vars + 4) + 8) vars p (map (fun x => (x, false)) params)).
