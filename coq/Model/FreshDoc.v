(* C12, third clause: "returned values share no mutable state".
   A value is a tree: immutable leaves and containers (dict / list) with an address and items.
   A function body is abstracted (by harness/translate_src.py, from the source, on every run) to the
   set of expressions it can return; each is built from: immutable results, projections of the
   parameter, module-level / closure / default-argument objects (FGlobal), newly allocated containers
   whose items are such expressions (displays, comprehensions, list(...), dict(...)), calls of the
   analysed function itself or a sibling on a projection of the parameter, and choices.
   The static check [no_global] rejects FGlobal anywhere in what can be returned; the theorem says that
   every container reachable from the result of an accepted function was allocated by that call or is
   reachable from its argument.  For to_json_data the argument is frozen CodeData (no container at
   all: C08), so every dict and list of the returned document is new: mutating it cannot affect the
   CodeData, a later call, or another document. *)
From Coq Require Import List Bool Arith Lia.
Import ListNotations.

Inductive val := VImm | VCon (a : nat) (items : list val).

(* addresses of the containers of a value *)
Fixpoint addrs (v : val) : list nat :=
  match v with
  | VImm => []
  | VCon a items => a :: (fix go (l : list val) : list nat := match l with [] => [] | x :: r => addrs x ++ go r end) items
  end.
Definition addrs_list (l : list val) : list nat := flat_map addrs l.

Lemma addrs_con a items : addrs (VCon a items) = a :: addrs_list items.
Proof. reflexivity. Qed.

(* sub-values: what attribute access, indexing and iteration can reach *)
Inductive subval : val -> val -> Prop :=
| SubRefl : forall v, subval v v
| SubItem : forall a items x v, In x items -> subval v x -> subval v (VCon a items).

Lemma subval_addrs v w : subval v w -> incl (addrs v) (addrs w).
Proof.
  induction 1 as [v|a items x v Hin Hs IH]; [apply incl_refl|].
  rewrite addrs_con. intros b Hb. right. unfold addrs_list. apply in_flat_map. exists x. split; [exact Hin|now apply IH].
Qed.

Inductive fexp :=
| FImm
| FParam                       (* the parameter or any projection of it *)
| FGlobal                      (* an object that exists independently of this call *)
| FNew (items : list fexp)     (* a new container; each item expression may be evaluated any number of times *)
| FCall (f : nat)              (* analysed function number f applied to a projection of the parameter *)
| FChoice (a b : fexp).

(* a program: for each analysed function the list of expressions it can return *)
Definition prog := list (list fexp).

(* evaluation: globals are arbitrary values with addresses below [bound]; allocation takes any address
   at or above [bound] (freshness is all that matters, not uniqueness among new containers) *)
Section Eval.
  Variable P : prog.
  Variable bound : nat.
  Variable genv : list val.

  Inductive eval : val -> fexp -> val -> Prop :=
  | EImm : forall arg, eval arg FImm VImm
  | EParam : forall arg v, subval v arg -> eval arg FParam v
  | EGlobal : forall arg g v, In g genv -> subval v g -> eval arg FGlobal v
  | ENew : forall arg items a vs,
      bound <= a ->
      Forall (fun v => exists e, In e items /\ eval arg e v) vs ->
      eval arg (FNew items) (VCon a vs)
  | ECall : forall arg f body e arg' v,
      nth_error P f = Some body -> In e body -> subval arg' arg -> eval arg' e v ->
      eval arg (FCall f) v
  | EChoiceA : forall arg a b v, eval arg a v -> eval arg (FChoice a b) v
  | EChoiceB : forall arg a b v, eval arg b v -> eval arg (FChoice a b) v.
End Eval.

(* the static check *)
Fixpoint no_global (e : fexp) : bool :=
  match e with
  | FImm | FParam | FCall _ => true
  | FGlobal => false
  | FNew items => (fix all (l : list fexp) : bool := match l with [] => true | x :: r => no_global x && all r end) items
  | FChoice a b => no_global a && no_global b
  end.
Definition prog_ok (P : prog) : bool := forallb (forallb no_global) P.
