(* Execution of a code object by an ARBITRARY interpreter whose per-instruction semantics observes the
   opcode, the resolved operand and the line only.  Not derived from the library; the only facts about
   CPython used are the ones Spec/Dis.v states: an instruction is fetched at a byte offset, its
   operand is resolved through the tables, a jump continues at a byte offset.

   Two machines:
   - run_offsets: CPython's layout - the program counter is a byte offset, EXTENDED_ARG prefixes
     are part of the instruction they extend, a taken jump continues at the operand's byte offset;
   - run_index: the symbolic view of Spec/Dis.v - the program counter is an instruction index.
   The theorems of Proofs/ExecLayout.v say the first is the second on the view, for every semantics
   [sem], every state type, every fuel: what an execution does is a function of the symbolic view. *)
From PCD Require Import Base.PyBase Base.Cfg Spec.Dis.

Inductive ctl := CNext | CTake | CHalt.
Inductive outcome := OHalt | OFellOff | OBadTarget | OStuck | OFuel.

Section Exec.
  Context {K S : Type}.
  (* the interpreter: opcode, resolved operand with the jump target erased (the kind is kept),
     line (for trace events), state -> new state and what to do next *)
  Variable sem : Z -> dval K -> option Z -> S -> S * ctl.

  Definition erase_target (v : dval K) : dval K :=
    match v with DJump _ rel => DJump 0 rel | _ => v end.

  Record event := mkEv { e_op : Z; e_val : dval K; e_line : option Z }.

  Definition push (e : event) (r : list event * S * outcome) : list event * S * outcome :=
    let '(t, s, o) := r in (e :: t, s, o).

  (* ---- machine 1: byte offsets over the folded unit list (first offset, opcode, operand) *)
  Fixpoint fetch_at (l : list (Z * Z * dval K)) (pc : Z) : option ((Z * Z * dval K) * option Z) :=
    match l with
    | [] => None
    | x :: r =>
        if fst (fst x) =? pc
        then Some (x, match r with y :: _ => Some (fst (fst y)) | [] => None end)
        else fetch_at r pc
    end.

  Fixpoint run_offsets (fuel : nat) (l : list (Z * Z * dval K)) (line : Z -> option Z) (pc : Z) (s : S)
    : list event * S * outcome :=
    match fuel with
    | O => ([], s, OFuel)
    | Datatypes.S f =>
        match fetch_at l pc with
        | None => ([], s, OBadTarget)
        | Some ((off, op, v), next) =>
            let e := mkEv op (erase_target v) (line off) in
            let '(s', k) := sem op (erase_target v) (line off) s in
            match k with
            | CHalt => ([e], s', OHalt)
            | CNext => match next with
                       | None => ([e], s', OFellOff)
                       | Some n => push e (run_offsets f l line n s')
                       end
            | CTake => match v with
                       | DJump t _ => push e (run_offsets f l line t s')
                       | _ => ([e], s', OStuck)
                       end
            end
        end
    end.

  (* ---- machine 2: instruction indices over the symbolic view *)
  Fixpoint run_index (fuel : nat) (v : list (vinstr K)) (pc : Z) (s : S) : list event * S * outcome :=
    match fuel with
    | O => ([], s, OFuel)
    | Datatypes.S f =>
        match znth v pc with
        | None => ([], s, OBadTarget)
        | Some i =>
            let e := mkEv (v_op i) (erase_target (v_val i)) (v_line i) in
            let '(s', k) := sem (v_op i) (erase_target (v_val i)) (v_line i) s in
            match k with
            | CHalt => ([e], s', OHalt)
            | CNext => if pc + 1 <? zlen v then push e (run_index f v (pc + 1) s') else ([e], s', OFellOff)
            | CTake => match v_val i with
                       | DJump t _ => push e (run_index f v t s')
                       | _ => ([e], s', OStuck)
                       end
            end
        end
    end.
End Exec.

(* CPython executing a code object: machine 1 on dis's folded units, lines from the line table *)
Definition run_code {K S} (sem : Z -> dval K -> option Z -> S -> S * ctl) (fuel : nat) (c : cfg)
  (code : list Z) (names varnames freevars cellvars : list str) (consts : list K)
  (table : list PCD.Model.LineTable.eitem) (firstlineno : Z) (s : S) : list (@event K) * S * outcome :=
  run_offsets sem fuel
    (dis_fold c names varnames freevars cellvars consts (dis_unpack c code 0 0) None)
    (dis_line c table firstlineno) 0 s.
