(* Reference definition of the partition that CPython's _PyCode_ConstantKey (Objects/codeobject.c)
   induces on inner constants.  Written independently of Model/Consts.v and in a different style:
   every constant is mapped to a canonical key tree and two constants are in the same class iff
   their key trees are equal, where the children of a tuple key are compared in order and the
   children of a frozenset key are compared as sets.

   _PyCode_ConstantKey(op):
     None, Ellipsis, int, bool, str, bytes, code  -> (type(op), op)
     float    -> (type, op)  /  (type, op, None) for -0.0 ; a NaN object only equals itself, so
                 on bit patterns: the key is the pattern (0.0 / -0.0 differ, each NaN is alone)
     complex  -> the same on the two parts (the None markers encode the signs of zero parts)
     tuple    -> (tuple of the keys of the items, op)
     frozenset-> (frozenset of the keys of the items, op)
   The leading type(op) is what keeps 1, 1.0 and True (and str from bytes) apart. *)
From Coq Require Import ZArith List Bool.
From PCD Require Import Base.PyBase Base.Cfg Model.Flags Model.Args Model.Data.
Import ListNotations. Open Scope Z_scope.

Inductive ktree := KT (tag : Z) (payload : list Z) (children : list ktree).

(* type tags *)
Definition TAG_NONE := 0.
Definition TAG_BOOL := 1.
Definition TAG_INT := 2.
Definition TAG_FLOAT := 3.
Definition TAG_COMPLEX := 4.
Definition TAG_STR := 5.
Definition TAG_BYTES := 6.
Definition TAG_ELLIPSIS := 7.
Definition TAG_TUPLE := 8.
Definition TAG_FROZENSET := 9.

Fixpoint pykey (c : iconst) : ktree :=
  match c with
  | INone => KT TAG_NONE [] []
  | IBool b => KT TAG_BOOL [if b then 1 else 0] []
  | IInt z => KT TAG_INT [z] []
  | IFloat bits => KT TAG_FLOAT [bits] []
  | IComplex re im => KT TAG_COMPLEX [re; im] []
  | IStr s => KT TAG_STR s []
  | IBytes b => KT TAG_BYTES b []
  | IEllipsis => KT TAG_ELLIPSIS [] []
  | ITuple l => KT TAG_TUPLE [] (map pykey l)
  | IFrozenset l => KT TAG_FROZENSET [] (map pykey l)
  end.

(* equality of integer payloads *)
Fixpoint zs_eqb (a b : list Z) : bool :=
  match a with
  | [] => match b with [] => true | _ :: _ => false end
  | x :: xs => match b with [] => false | y :: ys => if x =? y then zs_eqb xs ys else false end
  end.

(* equality of key trees; the children of a frozenset key form a set *)
Fixpoint kt_eqb (a b : ktree) : bool :=
  match a, b with
  | KT t1 p1 c1, KT t2 p2 c2 =>
      (t1 =? t2) && zs_eqb p1 p2 &&
      (if t1 =? TAG_FROZENSET
       then forallb (fun x => existsb (fun y => kt_eqb x y) c2) c1
            && forallb (fun y => existsb (fun x => kt_eqb x y) c1) c2
       else (fix ordered (l1 l2 : list ktree) : bool :=
               match l1, l2 with
               | [], [] => true
               | x :: xs, y :: ys => kt_eqb x y && ordered xs ys
               | _, _ => false
               end) c1 c2)
  end.

Definition pykey_eqb (a b : iconst) : bool := kt_eqb (pykey a) (pykey b).

(* IEEE-754 binary64: sign(1) exponent(11) mantissa(52).  NaN = exponent all ones, mantissa <> 0 *)
Definition f64_exponent (bits : Z) : Z := (bits / 2 ^ 52) mod 2 ^ 11.
Definition f64_mantissa (bits : Z) : Z := bits mod 2 ^ 52.
Definition f64_is_nan (bits : Z) : bool :=
  (f64_exponent bits =? 2047) && negb (f64_mantissa bits =? 0).

(* the canonical quiet NaN 0x7FF8000000000000 *)
Definition QNAN : Z := 9221120237041090560.
Definition nancanon_bits (bits : Z) : Z := if f64_is_nan bits then QNAN else bits.

Fixpoint nancanon (c : iconst) : iconst :=
  match c with
  | IFloat bits => IFloat (nancanon_bits bits)
  | IComplex re im => IComplex (nancanon_bits re) (nancanon_bits im)
  | ITuple l => ITuple (map nancanon l)
  | IFrozenset l => IFrozenset (map nancanon l)
  | other => other
  end.
