(* inspect._signature_from_function (CPython 3.7-3.10): how CPython binds the names at the start of
   co_varnames to parameter kinds.  Written from Lib/inspect.py, not from the library. *)
From PCD Require Import Base.PyBase Model.Args.

(* (name, kind) in signature order; None when co_varnames is too short (IndexError in inspect) *)
Definition inspect_parameters (argcount posonly kwonly : Z) (has_varargs has_varkw : bool)
  (varnames : list str) : option (list (str * Z)) :=
  let pos_count := argcount in
  let positional := take pos_count varnames in
  let keyword_only := take kwonly (drop pos_count varnames) in
  let idx_kw := pos_count + kwonly + (if has_varargs then 1 else 0) in
  match (if has_varargs then
           match znth varnames (pos_count + kwonly) with Some n => Some [n] | None => None end
         else Some []) with
  | None => None
  | Some vp =>
      match (if has_varkw then
               match znth varnames idx_kw with Some n => Some [n] | None => None end
             else Some []) with
      | None => None
      | Some vk =>
          Some (map (fun n => (n, K_POSONLY)) (take posonly positional) ++
                map (fun n => (n, K_POSKW)) (drop posonly positional) ++
                map (fun n => (n, K_VARPOS)) vp ++
                map (fun n => (n, K_KWONLY)) keyword_only ++
                map (fun n => (n, K_VARKW)) vk)
      end
  end.
