(* What CPython exposes about a function built from a code object, beside the signature (Spec/Sig.v).
   Written from Objects/funcobject.c and Lib/inspect.py (3.7-3.10), not from the library.
   - __doc__: PyFunction_NewWithQualName takes co_consts[0] when the tuple is non-empty and its first
     item is a str, else None;
   - inspect.isgeneratorfunction / iscoroutinefunction / isasyncgenfunction test one bit of co_flags each
     (CO_GENERATOR, CO_COROUTINE, CO_ASYNC_GENERATOR); the compiler sets at most one of them;
   - a code object is function-like (frames get fast locals) when CO_OPTIMIZED and CO_NEWLOCALS are set;
     module and class-body code has neither. *)
From PCD Require Import Base.PyBase Base.Cfg Model.Flags Model.Data.

Definition cpy_doc (consts : list pyconst) : option str :=
  match consts with PInner (IStr s) :: _ => Some s | _ => None end.

(* is the bit the configuration gives to flag [f] set in the word [w] *)
Definition bit_set (c : cfg) (f : flag) (w : Z) : bool :=
  match flag_value (cfg_flags c) f with
  | Some v => negb (Z.land v w =? 0)
  | None => false
  end.

Definition inspect_kind (c : cfg) (w : Z) : option fntype :=
  if bit_set c GENERATOR w then Some FT_GENERATOR
  else if bit_set c COROUTINE w then Some FT_COROUTINE
  else if bit_set c ASYNC_GENERATOR w then Some FT_ASYNC_GENERATOR
  else None.

Definition function_like (c : cfg) (w : Z) : bool := bit_set c OPTIMIZED w && bit_set c NEWLOCALS w.
