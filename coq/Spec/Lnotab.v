(* Reference definitions of what CPython does with line tables, written from CPython's sources
   (Objects/codeobject.c, Objects/lnotab_notes.txt, Python/compile.c of 3.7-3.10), not from the library.
   Tables are lists of raw entries (line delta as signed byte, bytecode delta), i.e. [eitem]. *)
From PCD Require Import Base.PyBase Model.LineTable.

(** * Readers *)

(* PyCode_Addr2Line of <= 3.9, relative to co_firstlineno *)
Fixpoint addr2line_from (tab : list eitem) (a line addr : Z) : Z :=
  match tab with
  | [] => line
  | (ld, bd) :: r =>
      if a + bd >? addr then line else addr2line_from r (a + bd) (line + ld) addr
  end.
Definition addr2line (tab : list eitem) (addr : Z) : Z := addr2line_from tab 0 0 addr.

(* co_lines() of 3.10 (PyLineTable_NextAddressRange): None = offset not covered by the table,
   Some None = covered, no line (-128), Some (Some l) = line l relative to co_firstlineno *)
Fixpoint colines_from (tab : list eitem) (a line o : Z) : option (option Z) :=
  match tab with
  | [] => None
  | (ld, bd) :: r =>
      let line' := if ld =? -128 then line else line + ld in
      if (a <=? o) && (o <? a + bd)
      then Some (if ld =? -128 then None else Some line')
      else colines_from r (a + bd) line' o
  end.
Definition colines (tab : list eitem) (o : Z) : option (option Z) := colines_from tab 0 0 o.

(** * Assemblers *)

(* one emitted event of assemble_lnotab (<= 3.9): d_bytecode > 255 and d_lineno outside [-128,127]
   are split by division *)
Definition emit_pre310 (db dl : Z) : list eitem :=
  let nb := if db >? 255 then db / 255 else 0 in
  let db1 := db - nb * 255 in
  zrepeat (0, 255) nb ++
  (if (dl <? -128) || (dl >? 127) then
     let k := if dl <? 0 then -128 else 127 in
     let n := if dl <? 0 then (- dl) / 128 else dl / 127 in
     (k, db1) :: zrepeat (k, 0) (n - 1) ++ [(dl - n * k, 0)]
   else [(dl, db1)]).

(* events: (bytecode delta since the last event, line delta).  3.7 skips only (0,0); 3.8/3.9 skip
   every event with line delta 0 and carry its bytecode delta to the next one. *)
Fixpoint asm_pre310 (v37 : bool) (events : list (Z * Z)) (pend : Z) : list eitem :=
  match events with
  | [] => []
  | (db0, dl) :: r =>
      let db := db0 + pend in
      if (if v37 then (db =? 0) && (dl =? 0) else (dl =? 0))
      then asm_pre310 v37 r (if v37 then 0 else db)
      else emit_pre310 db dl ++ asm_pre310 v37 r 0
  end.

(* assemble_line_range of 3.10 on one range (length in bytes, line relative to firstlineno or no line) *)
Definition emit_310 (bd : Z) (line : option Z) (prev : Z) : list eitem :=
  let ld0 := match line with None => -128 | Some l => l - prev end in
  let np := match line with None => 0 | Some _ => nsplit ld0 127 end in
  let nn := match line with None => 0 | Some _ => nsplit (- ld0) 127 end in
  let ld1 := ld0 - np * 127 + nn * 127 in
  let cont := match line with None => -128 | Some _ => 0 end in
  let nb := nsplit bd 254 in
  zrepeat (127, 0) np ++ zrepeat (-127, 0) nn ++
  (if nb =? 0 then [(ld1, bd)]
   else (ld1, 254) :: zrepeat (cont, 254) (nb - 1) ++ [(cont, bd - nb * 254)]).

Fixpoint asm_310 (ranges : list (Z * option Z)) (prev : Z) : list eitem :=
  match ranges with
  | [] => []
  | (bd, line) :: r =>
      if bd =? 0 then asm_310 r prev
      else emit_310 bd line prev ++ asm_310 r (match line with Some l => l | None => prev end)
  end.

(** * Well-formed line programs (what the compiler hands to its assembler) *)

Definition event_ok (e : Z * Z) : bool := (0 <=? fst e) && Z.even (fst e).
Definition events_ok (p : list (Z * Z)) : bool := forallb event_ok p.

(* 3.10: every range non-empty and even; neighbouring ranges have different lines (a range ends
   exactly when the line changes) *)
Fixpoint ranges_ok (p : list (Z * option Z)) : bool :=
  match p with
  | [] => true
  | (bd, line) :: r =>
      (0 <? bd) && Z.even bd &&
      match r with
      | [] => true
      | (_, line') :: _ => negb (option_eqb Z.eqb line line')
      end && ranges_ok r
  end.

(** * Decidable domains of the codec's inverse laws *)

Definition raw_entry_ok (lt : bool) (e : eitem) : bool :=
  (-128 <=? fst e) && (fst e <=? 127) && (0 <=? snd e) && (snd e <=? max_bc lt).
Definition raw_ok (lt : bool) (t : list eitem) : bool := forallb (raw_entry_ok lt) t.

(* co_lnotab: offsets even and non-negative, every item has a line *)
Definition wfc_lnotab_item (c : citem) : bool :=
  opt_is_some (fst c) && (0 <=? snd c) && Z.even (snd c).
Definition wfc_lnotab (c : list citem) : bool := forallb wfc_lnotab_item c.

(* co_linetable: every section non-empty and even, no section repeats its predecessor's line
   (delta 0 right after a section with a line), no two adjacent sections without line *)
Fixpoint wfc_310_from (prev : option (option Z)) (c : list citem) : bool :=
  match c with
  | [] => true
  | (l, b) :: r =>
      (0 <? b) && Z.even b &&
      match prev, l with
      | Some None, None => false
      | Some (Some _), Some d => negb (d =? 0)
      | _, _ => true
      end && wfc_310_from (Some l) r
  end.
Definition wfc_310 (c : list citem) : bool := wfc_310_from None c.

Definition raw_even (t : list eitem) : bool := forallb (fun e : eitem => Z.even (snd e)) t.
Definition total_bc (t : list eitem) : Z := sumZ (map snd t).

(** * What a 3.10 line program denotes *)

(* the collapsed items a line program corresponds to: one per range, line delta relative to the
   previous range that had a line *)
Fixpoint deltas (p : list (Z * option Z)) (prev : Z) : list citem :=
  match p with
  | [] => []
  | (bd, line) :: r =>
      (match line with Some l => Some (l - prev) | None => None end, bd)
      :: deltas r (match line with Some l => l | None => prev end)
  end.

(* offset -> line for every code unit of every range, in order *)
Fixpoint mapping_of_ranges (p : list (Z * option Z)) (a : Z) : odict (option Z) :=
  match p with
  | [] => []
  | (bd, line) :: r => map (fun o => (o, line)) (range2 a (a + bd)) ++ mapping_of_ranges r (a + bd)
  end.
