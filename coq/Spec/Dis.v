(* CPython's own reading of a code object, written from Lib/dis.py (3.7-3.10): _unpack_opargs,
   get_instructions' argval resolution and jump targets, with EXTENDED_ARG prefixes folded into the
   instruction they extend; and the line CPython assigns to the instruction's first code unit
   (Spec/Lnotab.v readers).  Not derived from the library. *)
From PCD Require Import Base.PyBase Base.Cfg Model.Flags Model.Args Model.Data Model.LineTable
  Spec.Lnotab.

(* dis._unpack_opargs: (offset, op, arg) per code unit; extended_arg is carried forward *)
Fixpoint dis_unpack (c : cfg) (b : list Z) (i ext : Z) : list (Z * Z * option Z) :=
  match b with
  | op :: byte :: r =>
      if op >=? cfg_have_argument c then
        let a := Z.lor byte ext in
        (i, op, Some a) :: dis_unpack c r (i + 2) (if op =? cfg_extended_arg c then Z.shiftl a 8 else 0)
      else (i, op, None) :: dis_unpack c r (i + 2) ext
  | _ => []
  end.

(* what an operand means; jump targets are byte offsets here *)
Inductive dval (K : Type) :=
| DNoArg | DInt (z : Z) | DName (s : str) | DLocal (s : str) | DCell (s : str) | DFree (s : str)
| DConst (k : K) | DJump (target : Z) (relative : bool) | DBad.
Arguments DNoArg {K}. Arguments DInt {K}. Arguments DName {K}. Arguments DLocal {K}.
Arguments DCell {K}. Arguments DFree {K}. Arguments DConst {K}. Arguments DJump {K}. Arguments DBad {K}.

Section Resolve.
  Context {K : Type}.
  (* get_instructions: argval of one unit at [offset] *)
  Definition dis_argval (c : cfg) (names varnames freevars cellvars : list str) (consts : list K)
    (offset op : Z) (a : option Z) : dval K :=
    match a with
    | None => DNoArg
    | Some a =>
        let scale := if cfg_v310 c then 2 else 1 in
        if zmem op (cfg_hasconst c) then match znth consts a with Some k => DConst k | None => DBad end
        else if zmem op (cfg_hasname c) then match znth names a with Some s => DName s | None => DBad end
        else if zmem op (cfg_hasjabs c) then DJump (a * scale) false
        else if zmem op (cfg_hasjrel c) then DJump (offset + 2 + a * scale) true
        else if zmem op (cfg_haslocal c) then match znth varnames a with Some s => DLocal s | None => DBad end
        else if zmem op (cfg_hasfree c) then
          match znth (cellvars ++ freevars) a with
          | Some s => if a <? zlen cellvars then DCell s else DFree s
          | None => DBad
          end
        else DInt a
    end.

  (* fold EXTENDED_ARG units into the instruction they prefix: (first offset, opcode, value) *)
  Fixpoint dis_fold (c : cfg) (names varnames freevars cellvars : list str) (consts : list K)
    (units : list (Z * Z * option Z)) (start : option Z) : list (Z * Z * dval K) :=
    match units with
    | [] => []
    | (off, op, a) :: r =>
        let first := match start with Some s => s | None => off end in
        if op =? cfg_extended_arg c then dis_fold c names varnames freevars cellvars consts r (Some first)
        else (first, op, dis_argval c names varnames freevars cellvars consts off op a)
             :: dis_fold c names varnames freevars cellvars consts r None
    end.
End Resolve.

(* the line of the code unit at [off]: None = CPython reports no line *)
Definition dis_line (c : cfg) (table : list eitem) (firstlineno off : Z) : option Z :=
  if cfg_v310 c then
    match colines table off with
    | Some (Some l) => Some (l + firstlineno)
    | _ => None
    end
  else Some (addr2line table off + firstlineno).

(* The symbolic view of an instruction stream: jump targets as instruction indices *)
Record vinstr (K : Type) := mkV {
  v_op : Z;
  v_val : dval K;            (* DJump carries the INDEX of the target instruction (or -1) *)
  v_line : option Z
}.
Arguments mkV {K}. Arguments v_op {K}. Arguments v_val {K}. Arguments v_line {K}.

Definition index_of_offset {K} (l : list (Z * Z * dval K)) (t : Z) : Z :=
  match index_of Z.eqb t (map (fun x => fst (fst x)) l) with Some k => k | None => -1 end.

Definition dis_view {K} (c : cfg) (code : list Z) (names varnames freevars cellvars : list str)
  (consts : list K) (table : list eitem) (firstlineno : Z) : list (vinstr K) :=
  let l := dis_fold c names varnames freevars cellvars consts (dis_unpack c code 0 0) None in
  map (fun x : Z * Z * dval K =>
         let '(first, op, v) := x in
         mkV op (match v with DJump t rel => DJump (index_of_offset l t) rel | _ => v end)
             (dis_line c table firstlineno first)) l.

(* The same view read off decoded data: blocks flattened, a jump's block index replaced by the
   index of that block's first instruction; private override fields forgotten *)
Section DataView.
  Context {K : Type}.
  Fixpoint block_first_indices (blocks : list (list (instr_ K))) (i : Z) : list Z :=
    match blocks with
    | [] => []
    | b :: r => i :: block_first_indices r (i + zlen b)
    end.
  Definition data_val (firsts : list Z) (a : arg_ K) : dval K :=
    match a with
    | AInt z => DInt z
    | AJump t rel => DJump (match znth firsts t with Some i => i | None => -1 end) rel
    | AName s _ => DName s
    | AVarname s _ => DLocal s
    | AConst k _ => DConst k
    | AFreevar s => DFree s
    | ACellvar s _ => DCell s
    | ANoArg _ => DNoArg
    end.
  Definition data_view (blocks : list (list (instr_ K))) : list (vinstr K) :=
    let firsts := block_first_indices blocks 0 in
    map (fun i : instr_ K => mkV (i_name i) (data_val firsts (i_arg i)) (i_line i)) (concat blocks).
End DataView.
