(* A validator for the subset of JSON Schema (draft-07 style) that the published JSON_SCHEMA uses:
   type, properties, required, items, anyOf, enum (of strings), $ref into #/definitions.  Keywords it
   does not know (title, description, default) are annotations and are ignored, as the specification says.
   Written from the specification, not from the library; compared on every C07 run with the harness's
   own Python validator on valid and corrupted documents. *)
From Coq Require Import String.
From PCD Require Import Base.PyBase Model.Json.
Open Scope Z_scope.
Open Scope list_scope.

Definition jtype_ok (t : str) (v : json) : bool :=
  if str_eqb t (lit "object") then match v with JObj _ => true | _ => false end
  else if str_eqb t (lit "array") then match v with JList _ => true | _ => false end
  else if str_eqb t (lit "string") then match v with JStr _ => true | _ => false end
  else if str_eqb t (lit "integer") then match v with JInt _ => true | _ => false end
  else if str_eqb t (lit "number") then match v with JInt _ | JFloat _ => true | _ => false end
  else if str_eqb t (lit "boolean") then match v with JBool _ => true | _ => false end
  else if str_eqb t (lit "null") then match v with JNull => true | _ => false end
  else false.

Definition ref_prefix : str := lit "#/definitions/".
Fixpoint strip_prefix (p s : str) : option str :=
  match p, s with
  | [], _ => Some s
  | a :: p', b :: s' => if a =? b then strip_prefix p' s' else None
  | _ :: _, [] => None
  end.

(* validate root schema value: fuel bounds the number of nested schema applications *)
Fixpoint validate (fuel : nat) (root sch v : json) : bool :=
  match fuel with
  | O => false
  | S f =>
      match sch with
      | JObj s =>
          (* $ref *)
          (match jget s (lit "$ref") with
           | Some (JStr r) =>
               match strip_prefix ref_prefix r, root with
               | Some name, JObj rs =>
                   match jget rs (lit "definitions") with
                   | Some (JObj defs) =>
                       match jget defs name with Some d => validate f root d v | None => false end
                   | _ => false
                   end
               | _, _ => false
               end
           | Some _ => false
           | None => true
           end)
          (* anyOf *)
          && (match jget s (lit "anyOf") with
              | Some (JList alts) => existsb (fun a => validate f root a v) alts
              | Some _ => false
              | None => true
              end)
          (* type *)
          && (match jget s (lit "type") with
              | Some (JStr t) => jtype_ok t v
              | Some _ => false
              | None => true
              end)
          (* enum of strings *)
          && (match jget s (lit "enum") with
              | Some (JList es) =>
                  match v with
                  | JStr x => existsb (fun e => match e with JStr y => str_eqb x y | _ => false end) es
                  | _ => false
                  end
              | Some _ => false
              | None => true
              end)
          (* required, properties (objects only) *)
          && (match v with
              | JObj fields =>
                  (match jget s (lit "required") with
                   | Some (JList req) =>
                       forallb (fun k => match k with
                                         | JStr name => match jget fields name with Some _ => true | None => false end
                                         | _ => false
                                         end) req
                   | Some _ => false
                   | None => true
                   end)
                  && (match jget s (lit "properties") with
                      | Some (JObj props) =>
                          forallb (fun kp : str * json =>
                                     match jget fields (fst kp) with
                                     | Some x => validate f root (snd kp) x
                                     | None => true
                                     end) props
                      | Some _ => false
                      | None => true
                      end)
              | _ => true
              end)
          (* items (arrays only) *)
          && (match v with
              | JList xs =>
                  match jget s (lit "items") with
                  | Some it => forallb (fun x => validate f root it x) xs
                  | None => true
                  end
              | _ => true
              end)
      | _ => false
      end
  end.
