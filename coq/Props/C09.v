(* C09 - Decoded data carries no redundant override information.
   Statements only; proofs in Proofs/TablesReplay.v (the decoder / encoder of one table, any key
   equivalence, duplicates allowed) and Proofs/OverrideProofs.v (decoded code objects run exactly those
   table decoders).  Model: Model/Blocks.v ToArgs.found_index / additional_args and FromArgs.add,
   tied to code_data/_blocks.py by the correspondence run. *)
From Coq Require Import Sorting.Sorted.
From PCD Require Import Base.PyBase Base.Cfg Model.Args Model.Data Model.Consts Model.Blocks Model.CodeData
  Proofs.C02_Statements Proofs.C01_Statements Proofs.C14_Statements Proofs.TablesReplay Proofs.OverrideProofs.

(* 1. Decoding a code object runs, for each of its four tables, the table decoder on the operand
      indices the instructions make into that table (parameters and a docstring counting first):
      the overrides of the decoded operands and the additional args are its outputs. *)
Theorem C09_decoded_tables : forall c code ks d ps,
  decode_code c code ks = OK d ->
  parse_bytes c (co_code code) 0 0 0 = OK ps ->
  cfg_ops_wf c = true -> code_ok c (co_code code) = true ->
  exists a,
  let args := map i_arg (concat (cd_blocks d)) in
  let addl := cd_addargs d in
  match cd_type d with Some f => fn_args f = a | None => args_len a = 0 end /\
  decoded_table str_eqb (co_names code) 0 (uses_of (cfg_hasname c) (fun _ => true) ps)
                (names_in args) (names_in addl) /\
  decoded_table str_eqb (co_varnames code) (args_len a) (uses_of (cfg_haslocal c) (fun _ => true) ps)
                (varnames_in args) (varnames_in addl) /\
  decoded_table str_eqb (co_cellvars code) 0
                (uses_of (cfg_hasfree c) (fun x => x <? zlen (co_cellvars code)) ps)
                (cellvars_in args) (cellvars_in addl) /\
  decoded_table key_eqb ks 0 (doc_use (cd_type d) ++ uses_of (cfg_hasconst c) (fun _ => true) ps)
                (doc_entry (cd_type d) ks ++ consts_in args) (consts_in addl) /\
  addl = arg_of_additional AName (names_in addl) ++ arg_of_additional AVarname (varnames_in addl)
         ++ arg_of_additional ACellvar (cellvars_in addl) ++ arg_of_additional AConst (consts_in addl).
Proof. exact C09_decoded_code. Qed.
Print Assumptions C09_decoded_tables.

(* 2. In a table without duplicate keys an entry carries an override exactly when its position
      differs from its rank in order of first use (presets counting first); the unreferenced entries
      are the additional args, ranked after all used ones. *)
Theorem C09_override_iff_out_of_place :
  forall (T : Type) (keq : T -> T -> bool),
  (forall x, keq x x = true) -> (forall x y, keq x y = keq y x) ->
  (forall x y z, keq x y = true -> keq y z = true -> keq x z = true) ->
  forall (tbl : list T) p idxs uses st adds,
  0 <= p <= zlen tbl -> dup_free keq tbl -> Forall (in_range tbl) idxs ->
  found_all keq (toargs_init tbl p) idxs = OK (uses, st) ->
  additional_args keq st = OK adds ->
  Forall2 (fun i (x : T * option Z) =>
             py_index tbl i = Some (fst x) /\ snd x = ov_spec (first_order p idxs) i) idxs uses /\
  Forall2 (fun i (x : T * option Z) =>
             py_index tbl i = Some (fst x) /\
             snd x = ov_spec (first_order p idxs ++ unused tbl p idxs) i) (unused tbl p idxs) adds.
Proof. exact @overrides_rank. Qed.
Print Assumptions C09_override_iff_out_of_place.

(* 3. Entries are listed as additional arguments exactly when no instruction references them
      (any table, duplicates allowed): replaying them gives the unreferenced indices in order. *)
Theorem C09_additional_exactly_unreferenced :
  forall (T : Type) (keq : T -> T -> bool),
  (forall x, keq x x = true) -> (forall x y, keq x y = keq y x) ->
  (forall x y z, keq x y = true -> keq y z = true -> keq x z = true) ->
  forall (tbl : list T) p idxs uses st adds st0 st1 st2 is1 is2,
  0 <= p <= zlen tbl -> preset_unique keq tbl p ->
  Forall (fun i => 0 <= i < zlen tbl) idxs ->
  found_all keq (toargs_init tbl p) idxs = OK (uses, st) ->
  additional_args keq st = OK adds ->
  set_all keq (take p tbl) 0 fromargs_empty = OK st0 ->
  add_all keq st0 uses = OK (is1, st1) ->
  add_all keq st1 adds = OK (is2, st2) ->
  is1 = idxs /\ is2 = unused tbl p idxs /\ StronglySorted Z.lt is2 /\
  (forall i, In i is2 <-> 0 <= i < zlen tbl /\ ~ 0 <= i < p /\ ~ In i idxs).
Proof. exact @adds_replay_indices. Qed.
Print Assumptions C09_additional_exactly_unreferenced.

(* 4. A table in first-use order with no unreferenced entry decodes without any override. *)
Theorem C09_canonical_tables_no_override :
  forall (T : Type) (keq : T -> T -> bool),
  (forall x, keq x x = true) -> (forall x y, keq x y = keq y x) ->
  (forall x y z, keq x y = true -> keq y z = true -> keq x z = true) ->
  forall (tbl : list T) p idxs uses st adds,
  0 <= p <= zlen tbl -> dup_free keq tbl -> Forall (in_range tbl) idxs ->
  first_order p idxs = zrange (length tbl) ->
  found_all keq (toargs_init tbl p) idxs = OK (uses, st) ->
  additional_args keq st = OK adds ->
  Forall (fun x : T * option Z => snd x = None) uses /\ adds = [].
Proof. exact @canonical_no_override. Qed.
Print Assumptions C09_canonical_tables_no_override.

(* 5. Every override is needed (any table, duplicate keys included): removing it from all uses of
      its entry makes re-encoding fail or return different operand indices. *)
Theorem C09_every_override_is_needed :
  forall (T : Type) (keq : T -> T -> bool),
  (forall x, keq x x = true) -> (forall x y, keq x y = keq y x) ->
  (forall x y z, keq x y = true -> keq y z = true -> keq x z = true) ->
  forall (tbl : list T) p idxs uses st adds st0 a i,
  0 <= p <= zlen tbl -> preset_unique keq tbl p -> Forall (in_range tbl) idxs ->
  found_all keq (toargs_init tbl p) idxs = OK (uses, st) ->
  additional_args keq st = OK adds ->
  set_all keq (take p tbl) 0 fromargs_empty = OK st0 ->
  In (a, Some i) (uses ++ adds) ->
  forall is' st', add_all keq st0 (strip i (uses ++ adds)) = OK (is', st') ->
                  is' <> idxs ++ unused tbl p idxs.
Proof. exact @strip_differs. Qed.
Print Assumptions C09_every_override_is_needed.

(* Tie of the table decoder to the current source, for ALL tables, indices and key equalities: Gen/SrcTables.v is
   ToArgs.found_index as re-translated from code_data/_blocks.py on every run (the rank is the number of indices seen so
   far, a key met at a second index becomes a duplicate key, an override is recorded when the rank differs from the index or
   the key is a duplicate; the dict / set fields and their per-instance defaults are checked); it is the model's found_index,
   and the rank it reads back is always present.  The theorems above are therefore about the rule the source applies now. *)
From PCD Require Model.TableOps Gen.SrcTables Proofs.SrcTablesTie.
Theorem C09_found_index_is_the_source : forall {T} (keq : T -> T -> bool) (st : toargs T) index,
  PCD.Gen.SrcTables.found_index keq st index = found_index keq st index.
Proof. intros. apply SrcTablesTie.found_index_tie. Qed.
Print Assumptions C09_found_index_is_the_source.

(* and ToArgs.additional_args - every index no instruction has mentioned, in table order, through found_index - run to the end *)
Theorem C09_additional_args_is_the_source : forall {T} (keq : T -> T -> bool) (st : toargs T),
  PCD.Gen.SrcTables.additional_args keq st = additional_args keq st.
Proof. intros. apply SrcTablesTie.additional_args_tie. Qed.
Print Assumptions C09_additional_args_is_the_source.

(* the state bytes_to_blocks starts decoding from: the four tables, varnames with the parameters preset as found, and - for a
   function whose docstring is not None, the empty string included - constant 0 marked as found before any instruction is read
   (so that the docstring is never reported as an unreferenced extra, and no later constant is found "one rank early").
   Re-translated on every run (Gen/SrcIter.v, dec_init); the model's bytes_to_blocks is that state followed by the loops. *)
From PCD Require Gen.SrcIter Proofs.SrcDecPrologueTie.
Theorem C09_decoder_prologue_is_the_source : forall {C} (keq : C -> C -> bool) names varnames cellvars (constants : list C) bt a,
  PCD.Gen.SrcIter.dec_init keq names varnames cellvars constants bt a
  = SrcDecPrologueTie.model_dec_init keq names varnames cellvars constants bt a.
Proof. intros. apply SrcDecPrologueTie.dec_init_tie. Qed.
Print Assumptions C09_decoder_prologue_is_the_source.

Theorem C09_bytes_to_blocks_starts_from_that_state : forall {C} (keq : C -> C -> bool) c b lm names varnames freevars cellvars constants bt a,
  bytes_to_blocks keq c b lm names varnames freevars cellvars constants bt a
  = match SrcDecPrologueTie.model_dec_init keq names varnames cellvars constants bt a with
    | Err e => Err e
    | OK st1 => SrcDecPrologueTie.decode_from keq c b lm freevars st1
    end.
Proof. intros. apply SrcDecPrologueTie.bytes_to_blocks_starts_from_dec_init. Qed.
Print Assumptions C09_bytes_to_blocks_starts_from_that_state.

(* ... and ends with: the entries of each table that no instruction referred to (ToArgs.additional_args, tied above), wrapped as
   Name / Varname / Cellvar / Constant operands and concatenated in that order - re-translated on every run *)
Theorem C09_unreferenced_entries_are_collected_as_the_source_does : forall {C} (keq : C -> C -> bool) (st2 : decstate C),
  PCD.Gen.SrcIter.additional_of keq st2 =
  match additional_args str_eqb (d_names st2) with
  | Err e => Err e
  | OK an =>
  match additional_args str_eqb (d_varnames st2) with
  | Err e => Err e
  | OK av =>
  match additional_args str_eqb (d_cellvars st2) with
  | Err e => Err e
  | OK ac =>
  match additional_args keq (d_consts st2) with
  | Err e => Err e
  | OK ak => OK (arg_of_additional AName an ++ arg_of_additional AVarname av
                 ++ arg_of_additional ACellvar ac ++ arg_of_additional AConst ak)
  end end end end.
Proof. intros. apply SrcDecPrologueTie.additional_of_tie. Qed.
Print Assumptions C09_unreferenced_entries_are_collected_as_the_source_does.
