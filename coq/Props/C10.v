(* C10 - Line-table codec agrees with CPython for everything its assembler can emit.
   Statements only; proofs are in Proofs/LT_*.v.  [lt] = false: co_lnotab (<= 3.9), true: co_linetable (3.10).
   Model: Model/LineTable.v (tied to code_data/_line_mapping.py by the correspondence run).
   CPython side: Spec/Lnotab.v (readers addr2line / colines, assemblers asm_pre310 / asm_310). *)
From PCD Require Import Base.PyBase Model.LineTable Spec.Lnotab Proofs.C10_Statements
  Proofs.LT_ExpandCollapse Proofs.LT_Lnotab Proofs.LT_310.
From PCD Require Base.PyImp Gen.SrcLines Proofs.SrcLinesTie Proofs.SrcMapTie Proofs.SrcI2MTie Gen.SrcStage1 Proofs.SrcStage1Tie Gen.SrcLineMap Proofs.SrcLineMapTie.

(* The property for co_lnotab: for every line program (3.7 or 3.8/3.9 assembler) and every code length n,
   the decoded mapping gives each instruction offset the line PyCode_Addr2Line gives, and re-encoding
   reproduces the table byte for byte. *)
Theorem C10_lnotab_codec_agrees : forall v37 p n,
  events_ok p = true ->
  let t := asm_pre310 v37 p 0 in
  exists b m,
    items_to_bytes t = OK b /\
    to_line_mapping false b n = OK m /\
    from_line_mapping false m = OK b /\
    forall o, 0 <= o < n -> Z.even o = true -> oget (lm_lines m) o = Some (Some (addr2line t o)).
Proof. exact C10_lnotab. Qed.
Print Assumptions C10_lnotab_codec_agrees.

(* The property for co_linetable (3.10), including runs without line and ranges longer than 254 bytes *)
Theorem C10_linetable_codec_agrees : forall p n,
  ranges_ok p = true -> p <> [] ->
  let t := asm_310 p 0 in
  exists b m,
    items_to_bytes t = OK b /\
    to_line_mapping true b n = OK m /\
    from_line_mapping true m = OK b /\
    forall o x, Z.even o = true -> colines t o = Some x -> oget (lm_lines m) o = Some x.
Proof. exact (C10_310_from items_bytes bytes_items). Qed.
Print Assumptions C10_linetable_codec_agrees.

(* Stage laws over ALL raw tables (stronger than assembler images: every table found in compiled
   code is covered once the harness has evaluated the boolean domain predicate on it) *)
Theorem C10_bytes_items_inverse : forall b,
  forallb byte_ok b = true -> Nat.even (length b) = true ->
  exists items, bytes_to_items b = OK items /\ raw_ok false items = true /\ items_to_bytes items = OK b.
Proof. exact bytes_items. Qed.
Print Assumptions C10_bytes_items_inverse.

Theorem C10_expand_collapse_id : forall lt t,
  raw_ok lt t = true -> expand_items lt (collapse_items lt t) = t.
Proof. exact expand_collapse. Qed.
Print Assumptions C10_expand_collapse_id.

Theorem C10_mapping_items_id_lnotab : forall c n,
  wfc_lnotab c = true ->
  exists m, items_to_mapping c n false = OK m /\ mapping_to_items m false = OK c.
Proof. exact mapping_items_lnotab. Qed.
Print Assumptions C10_mapping_items_id_lnotab.

Theorem C10_reader_lnotab_raw : forall t n m,
  raw_ok false t = true -> wfc_lnotab (collapse_items false t) = true ->
  items_to_mapping (collapse_items false t) n false = OK m ->
  forall o, 0 <= o < n -> Z.even o = true ->
  oget (lm_lines m) o = Some (Some (addr2line t o)).
Proof. exact reader_lnotab_gen. Qed.
Print Assumptions C10_reader_lnotab_raw.

Theorem C10_reader_linetable_raw : forall t n m,
  raw_ok true t = true -> raw_even t = true ->
  items_to_mapping (collapse_items true t) n true = OK m ->
  forall o x, Z.even o = true -> colines t o = Some x ->
  oget (lm_lines m) o = Some x.
Proof. exact reader_310. Qed.
Print Assumptions C10_reader_linetable_raw.

Theorem C10_asm_in_domain_lnotab : forall v37 p,
  events_ok p = true ->
  raw_ok false (asm_pre310 v37 p 0) = true /\
  wfc_lnotab (collapse_items false (asm_pre310 v37 p 0)) = true.
Proof. intros v37 p H; split; [exact (asm_pre310_raw_ok v37 p H) | exact (asm_collapse_wfc v37 p H)]. Qed.
Print Assumptions C10_asm_in_domain_lnotab.

Theorem C10_asm_in_domain_linetable : forall p prev,
  ranges_ok p = true ->
  raw_ok true (asm_310 p prev) = true /\ raw_even (asm_310 p prev) = true.
Proof. exact asm_310_raw. Qed.
Print Assumptions C10_asm_in_domain_linetable.

(* Tie to the current source, proved for ALL inputs.  Gen/SrcLines.v is re-translated on every run from the
   statements of expand_items / collapse_items in code_data/_line_mapping.py (harness/translate_lines.py: loops as
   fuelled while_, arithmetic or ordering on a None-able value raising TypeError).  The translated expand_items
   terminates within the stated fuel (largest |bytecode offset| + |line offset| of an item), never raises, and returns
   what the model returns; the comprehension, the two split conditions and the merge of collapse_items are the
   model's.  (The reversed in-place loop of collapse_items itself is tied by the correspondence run.) *)
Theorem C10_expand_items_is_the_source : forall lt items fuel,
  (SrcLinesTie.expand_fuel items <= fuel)%nat ->
  PCD.Gen.SrcLines.ExpandItems.expand_items fuel items lt = OK (expand_items lt items).
Proof. exact SrcLinesTie.expand_items_tie. Qed.
Print Assumptions C10_expand_items_is_the_source.

Theorem C10_collapse_conditions_are_the_source : forall lt prev item,
  PCD.Gen.SrcLines.CollapseItems.bytecode_offset_split lt prev item = OK (bytecode_offset_split lt prev item) /\
  PCD.Gen.SrcLines.CollapseItems.line_offset_split lt prev item = OK (line_offset_split lt prev item) /\
  (bytecode_offset_split lt prev item || line_offset_split lt prev item = true ->
   PCD.Gen.SrcLines.CollapseItems.merge_items lt prev item = OK (merge_items prev item)) /\
  (forall i, PCD.Gen.SrcLines.CollapseItems.to_citem lt i = OK (to_citem lt i)).
Proof.
  intros lt prev item. split; [apply SrcLinesTie.bytecode_offset_split_tie|].
  split; [apply SrcLinesTie.line_offset_split_tie|]. split; [apply SrcLinesTie.merge_items_tie|].
  intros i; apply SrcLinesTie.to_citem_tie.
Qed.
Print Assumptions C10_collapse_conditions_are_the_source.

(* stage 3, encoder side: both branches of mapping_to_items (the section walk of co_linetable with its NameError on an
   empty mapping, the entry emission of co_lnotab with its TypeError on an instruction without line), translated
   statement by statement, are the model's for ALL mappings *)
Theorem C10_mapping_to_items_is_the_source : forall m,
  PCD.Gen.SrcLines.MappingToItemsLt.run m = mapping_to_items m true /\
  PCD.Gen.SrcLines.MappingToItemsLnotab.run m = mapping_to_items m false.
Proof. intros m. split; [apply SrcMapTie.mapping_to_items_lt_tie | apply SrcMapTie.mapping_to_items_lnotab_tie]. Qed.
Print Assumptions C10_mapping_to_items_is_the_source.

(* stage 3, decoder side: both branches of items_to_mapping - the range filling of co_linetable and the walk over the
   bytecode offsets of co_lnotab (an index-driven while with a nested while that absorbs zero-width entries, a
   defaultdict of extra line offsets, TypeError on an entry without line) - translated statement by statement, are the
   model's for ALL item lists and code lengths, with any fuel that covers the number of items for the nested loop; the
   outer loop and the model run on the same fuel, step for step *)
Theorem C10_items_to_mapping_is_the_source : forall F items mx,
  PCD.Gen.SrcLines.ItemsToMappingLt.run F items mx
  = match items_to_mapping items mx true with OK m => OK (lm_lines m, lm_adds m) | Err e => Err e end /\
  ((length items <= F)%nat ->
   PCD.Gen.SrcLines.ItemsToMappingLnotab.run F items mx
   = match items_to_mapping_lnotab F items mx 0 0 0 [] [] with OK m => OK (lm_lines m, lm_adds m) | Err e => Err e end).
Proof.
  intros F items mx. split; [apply SrcI2MTie.items_to_mapping_lt_tie | apply SrcI2MTie.items_to_mapping_lnotab_tie].
Qed.
Print Assumptions C10_items_to_mapping_is_the_source.

(* in particular with the fuel the model itself uses *)
Theorem C10_items_to_mapping_lnotab_is_the_source : forall items mx,
  PCD.Gen.SrcLines.ItemsToMappingLnotab.run (lnotab_fuel items mx) items mx
  = match items_to_mapping items mx false with OK m => OK (lm_lines m, lm_adds m) | Err e => Err e end.
Proof.
  intros items mx. unfold items_to_mapping. apply SrcI2MTie.items_to_mapping_lnotab_tie. unfold lnotab_fuel. apply Nat.le_add_l.
Qed.
Print Assumptions C10_items_to_mapping_lnotab_is_the_source.

(* stage 1, the bytes themselves: the comprehension of bytes_to_items (range, index expressions, signedness, which field gets
   which byte; IndexError on an odd length) and the expression of items_to_bytes (order of the two bytes, the mask, ValueError of
   bytes() outside range(256)) of the current source are the model's, for ALL byte strings and item lists *)
Theorem C10_stage1_is_the_source :
  (forall b, PCD.Gen.SrcStage1.bytes_to_items b = bytes_to_items b) /\
  (forall items, PCD.Gen.SrcStage1.items_to_bytes items = items_to_bytes items).
Proof. split; [exact SrcStage1Tie.bytes_to_items_tie | exact SrcStage1Tie.items_to_bytes_tie]. Qed.
Print Assumptions C10_stage1_is_the_source.

(* the LineMapping methods through which to_code_data and from_code_data use the codec: the two guards, the lookup and the
   result of pop_additional_line (as the caller sees it), the two stores of add_additional_line, the in-place shift of
   modify_line_offsets - of the current source - are the model's, for ALL mappings *)
Theorem C10_line_mapping_methods_are_the_source :
  (forall m k, SrcLineMapTie.seen (PCD.Gen.SrcLineMap.pop_additional_line m k) = SrcLineMapTie.seen (pop_additional_line m k)) /\
  (forall m line offs k, PCD.Gen.SrcLineMap.add_additional_line m line offs k = add_additional_line m line offs k) /\
  (forall m d, PCD.Gen.SrcLineMap.modify_line_offsets m d = modify_line_offsets m d).
Proof.
  split; [exact SrcLineMapTie.pop_additional_line_tie|].
  split; [exact SrcLineMapTie.add_additional_line_tie | exact SrcLineMapTie.modify_line_offsets_tie].
Qed.
Print Assumptions C10_line_mapping_methods_are_the_source.

(* non-vacuity of the tie: the translated loops really run (three splitting iterations here) *)
Example C10_translated_loops_run :
  PCD.Gen.SrcLines.ExpandItems.expand_items 5 [(Some 300, 600); (None, 600); (Some (-300), 2)] true
  = OK (expand_items true [(Some 300, 600); (None, 600); (Some (-300), 2)]) /\
  length (expand_items true [(Some 300, 600); (None, 600); (Some (-300), 2)]) = 11%nat.
Proof. vm_compute. split; reflexivity. Qed.

(* non-vacuity: concrete programs satisfy the premises and exercise every splitting rule *)
Example C10_premises_hold :
  events_ok [(0, 1); (4, 127); (0, -1); (600, 300); (2, -300)] = true /\
  ranges_ok [(4, Some 1); (600, None); (2, Some 1); (300, Some 400); (2, Some 2)] = true.
Proof. vm_compute. split; reflexivity. Qed.
