(* C03 - Encoding any well-formed CodeData yields code that says what the data says.
   Statements only; proofs in Proofs/EncodeCorrect.v (composition), EncodeView.v (what dis reads in the
   emitted code), LinesCarried.v (what CPython's line readers read in the emitted table), RelaxProofs.v
   (termination and consistency of the jump relaxation), TablesSound.v (operand tables), InstrCodec.v.
   Model: Model/CodeData.v encode_code / Model/Blocks.v blocks_to_bytes, tied to the code by the
   correspondence run (full code objects for hand-built block graphs).  data_wf is a boolean evaluated on
   every generated datum by the check (group wf-monitor).  The clause "decoding the emitted code again gives
   the data up to normalization" is C03_emitted_code_is_in_the_decoder_domain + C03_redecode_gives_the_stream
   (Proofs/Redecode1.v, Redecode.v): the re-decoded data reads as the input's flattened instruction stream,
   constants up to key equality; block boundaries of hand-built data need not be the jump-target
   partition, which is why the statement is on the stream and the oracle compares normal forms. *)
From PCD Require Import Base.PyBase Base.Cfg Model.Args Model.Data Model.Consts Model.LineTable Model.Blocks
  Model.CodeData Spec.Lnotab Spec.Dis Model.ViewSer Proofs.C02_Statements Proofs.C01_Statements
  Proofs.C03_Statements Proofs.C03b_Statements Proofs.C03c_Statements Proofs.TablesReplay Proofs.TablesSound
  Proofs.RelaxProofs Proofs.EncodeCorrect Proofs.C06_Statements Proofs.C03d_Statements Proofs.Redecode Proofs.Total_Statements Proofs.EncodeTotal1 Proofs.EncodeTotal Proofs.CodeRoundTrip Proofs.RedecodeNormalForm.

(* For every configuration and every well-formed datum without private override fields (constants paired
   with their encodings): the emitted code object is read back by CPython's disassembler and line reader
   as the data's instruction stream - every jump on the first instruction of its target block whatever
   operand widths that needs, every operand resolving to the given name / variable / constant inside its
   table (constants up to the key equality of C08, so 0.0/-0.0, 1/True/1.0, 'a'/b'a' are never merged),
   every instruction carrying the given line or no line - and the header says what the data says. *)
Theorem C03_encode_says_what_the_data_says : forall c (d : code_data_ pconst) code,
  data_wf c d = true ->
  encode_code c d = OK code ->
  zlen (co_code code) < 1073741824 ->
  exists kst : list pconst,
    map snd kst = co_consts code /\
    view_agrees pkey_eqb (data_view (cd_blocks d))
      (dis_view c (co_code code) (co_names code) (co_varnames code) (co_freevars code)
                (co_cellvars code) kst (raw_entries (co_linetable code)) (co_firstlineno code)) = true /\
    code_ok c (co_code code) = true /\
    co_freevars code = cd_freevars d /\ co_stacksize code = cd_stacksize d /\
    co_firstlineno code = cd_firstline d /\ co_name code = cd_name d /\ co_filename code = cd_filename d /\
    co_nlocals code = zlen (co_varnames code) /\
    match cd_type d with
    | None => co_argcount code = 0 /\ co_kwonlyargcount code = 0 /\ co_posonlyargcount code = 0
    | Some f =>
        let a := fn_args f in
        co_argcount code = zlen (a_posonly a) + zlen (a_poskw a) /\
        co_posonlyargcount code = zlen (a_posonly a) /\
        co_kwonlyargcount code = zlen (a_kwonly a) /\
        take (zlen (args_to_varnames a)) (co_varnames code) = args_to_varnames a
    end.
Proof. exact C03_level. Qed.
Print Assumptions C03_encode_says_what_the_data_says.

(* to_code terminates: the jump-width fix-point never exhausts its bound, for ALL data whose size
   overrides are not negative (any jump structure, any overrides otherwise) *)
Theorem C03_to_code_terminates : forall c (d : code_data_ pconst),
  (forall i n, In i (concat (cd_blocks d)) -> i_nargs i = Some n -> 0 <= n) ->
  encode_code c d <> Err OutOfFuel.
Proof. exact C03_terminates. Qed.
Print Assumptions C03_to_code_terminates.

(* at exit of the relaxation every jump operand is the one the final layout requires *)
Theorem C03_relaxation_consistent : forall (C : Type) fuel c (blocks : list (list (instr_ C))) vals0 vals,
  relax fuel c blocks vals0 = OK vals ->
  length vals = length (concat blocks) /\
  update_jumps c (concat blocks) vals (block_offsets blocks vals 0) 0 = OK (vals, false).
Proof. exact relax_consistent. Qed.
Print Assumptions C03_relaxation_consistent.

(* inconsistent position overrides raise: a gap (an index outside 0..n-1) makes the table conversion
   raise, a collision (two key-different values pinned at one index) makes the encoder raise *)
Theorem C03_override_gap_raises :
  forall (T : Type) (keq : T -> T -> bool),
  (forall x, keq x x = true) -> (forall x y, keq x y = keq y x) ->
  (forall x y z, keq x y = true -> keq y z = true -> keq x z = true) ->
  forall (st0 : fromargs T) l idxs st a i,
  fa_wf keq st0 ->
  add_all keq st0 l = OK (idxs, st) ->
  In (a, Some i) l -> ~ 0 <= i < zlen (fa_items st) -> fa_to_tuple st = Err ValueError.
Proof. exact @override_gap_raises. Qed.
Print Assumptions C03_override_gap_raises.

Theorem C03_override_collision_raises :
  forall (T : Type) (keq : T -> T -> bool),
  (forall x, keq x x = true) -> (forall x y, keq x y = keq y x) ->
  (forall x y z, keq x y = true -> keq y z = true -> keq x z = true) ->
  forall (st0 : fromargs T) l a b i,
  In (a, Some i) l -> In (b, Some i) l -> keq a b = false -> add_all keq st0 l = Err ValueError.
Proof. exact @collisions_raise. Qed.
Print Assumptions C03_override_collision_raises.

(* the code object emitted for well-formed data lies in the domain of the decoder theorem (C02): its
   bytes, tables, jump targets and line table satisfy view_wf *)
Theorem C03_emitted_code_is_in_the_decoder_domain : forall c (d : code_data_ pconst) code,
  data_wf c d = true ->
  encode_code c d = OK code ->
  zlen (co_code code) < 1073741824 ->
  exists kst : list pconst,
    map snd kst = co_consts code /\
    view_wf c code (map fst kst) = true.
Proof. exact emitted_view_wf. Qed.
Print Assumptions C03_emitted_code_is_in_the_decoder_domain.

(* decoding the emitted code again gives data whose instruction stream is the input's: same opcodes,
   same resolved operands (constants up to key equality), same jump structure, same lines *)
Theorem C03_redecode_gives_the_stream : forall c (d : code_data_ pconst) code,
  data_wf c d = true ->
  encode_code c d = OK code ->
  zlen (co_code code) < 1073741824 ->
  exists kst : list pconst,
    map snd kst = co_consts code /\
    forall d2, decode_code c code (map fst kst) = OK d2 ->
      view_agrees key_eqb (fst_view (data_view (cd_blocks d))) (data_view (cd_blocks d2)) = true.
Proof. exact C03_redecode. Qed.
Print Assumptions C03_redecode_gives_the_stream.

(* to_code RETURNS a code object for well-formed data exactly when enc_ok holds: stack size not
   negative, every free-variable operand declared in freevars, no positional-only parameter before 3.8,
   and the configuration's flag table names the flags the datum needs (always true on the four generated
   configurations: EncodeTotal.enc_ok_generated_cfgs).  No premise on names, lines, first line, table
   sizes or jump distances: the operand tables never collide without overrides, the varnames-prefix
   assertion cannot fail, the line codec accepts every value, the relaxation terminates. *)
Theorem C03_to_code_returns_iff_enc_ok : forall c (d : code_data_ pconst),
  data_wf c d = true ->
  ((exists code, encode_code c d = OK code) <-> enc_ok c d = true).
Proof. exact encode_total_iff. Qed.
Print Assumptions C03_to_code_returns_iff_enc_ok.

(* The last clause in full: for hand-built well-formed data whose blocks are cut at the jump-target
   partition (every block but the first is the target of some jump: blocks_canonical), decoding the
   emitted code object again gives data EQUAL (the library's ==) to the input up to normalization -
   blocks, header, signature, docstring, constants at any nesting.  cfg_flags_ok holds for the four
   generated configurations (Props/C06.v).  Without blocks_canonical the statement is false
   (RedecodeNormalForm.C03_redecode_needs_canonical: a block boundary that no jump targets is not
   something the decoder can reproduce), which is why the stream statement above is kept as well. *)
Theorem C03_redecode_gives_the_data_up_to_normalization : forall c (d : code_data_ pconst) code,
  cfg_flags_ok c = true ->
  data_wf c d = true ->
  blocks_canonical (cd_blocks d) ->
  encode_code c d = OK code ->
  zlen (co_code code) < 1073741824 ->
  exists kst : list pconst,
    map snd kst = co_consts code /\
    forall d2, decode_code c code (map fst kst) = OK d2 ->
      cd_eqb (normalize d2) (normalize (proj_cd d)) = true.
Proof. exact C03_redecode_normal_form_cfg. Qed.
Print Assumptions C03_redecode_gives_the_data_up_to_normalization.

(* Tie of the operand encoding to the current source: the isinstance chain of from_arg (operands registered in the four
   tables, free variables by position, the rule that keeps a leading string constant from being read as a docstring),
   re-translated on every run (Gen/SrcFromArg.v), is the model's from_arg for all operands and table states *)
From PCD Require Gen.SrcFromArg Proofs.SrcFromArgTie.
Theorem C03_from_arg_is_the_source : forall {C} (keq : C -> C -> bool) (is_str : C -> bool) (none_c : C) a bt freevars st,
  PCD.Gen.SrcFromArg.from_arg keq is_str none_c a bt freevars st = from_arg keq is_str none_c a bt freevars st.
Proof. exact @SrcFromArgTie.from_arg_tie. Qed.
Print Assumptions C03_from_arg_is_the_source.

(* Tie of the jump relaxation to the current source.  The per-instruction bodies of the two passes inside
   `while changed_instruction_lengths:` are re-translated on every run (Gen/SrcLines.v: RelaxPass1, RelaxPass2).
   For ALL instructions, operand values, offsets and flag values the body of pass 2 computes model_step2 - the size of
   the instruction, the running offset, the new jump operand (relative jumps from the offset AFTER the instruction,
   scaled by the interpreter's unit) and the flag, which a pass can only raise; and the model's update_jumps is the
   left-to-right iteration of model_step2.  C03_relaxation_consistent / C03_to_code_terminates above are therefore about
   the loop body the source has now. *)
From PCD Require Base.PyImp Gen.SrcLines Proofs.SrcRelaxTie.
Theorem C03_relaxation_step_is_the_source : forall {C} c offs (i : instr_ C) v s,
  match SrcRelaxTie.model_step2 c offs i v (PCD.Gen.SrcLines.RelaxPass2.v_current_instruction_offset s)
          (PCD.Gen.SrcLines.RelaxPass2.v_changed_instruction_lengths s) with
  | OK (cur', nv, ch') =>
      exists s', PCD.Gen.SrcLines.RelaxPass2.step (i_nargs i) v (cfg_v310 c) (SrcRelaxTie.is_jump (i_arg i))
                   (SrcRelaxTie.jump_target_offset offs (i_arg i)) (SrcRelaxTie.jump_rel (i_arg i)) s = OK s'
        /\ PCD.Gen.SrcLines.RelaxPass2.v_current_instruction_offset s' = cur'
        /\ PCD.Gen.SrcLines.RelaxPass2.v_changed_instruction_lengths s' = ch'
        /\ PCD.Gen.SrcLines.RelaxPass2.v_out_arg s' =
           (if SrcRelaxTie.is_jump (i_arg i) then Some nv else PCD.Gen.SrcLines.RelaxPass2.v_out_arg s)
  | Err e => PCD.Gen.SrcLines.RelaxPass2.step (i_nargs i) v (cfg_v310 c) (SrcRelaxTie.is_jump (i_arg i))
               (SrcRelaxTie.jump_target_offset offs (i_arg i)) (SrcRelaxTie.jump_rel (i_arg i)) s = Err e
  end.
Proof. intros C c offs i v s. exact (SrcRelaxTie.pass2_step_tie c offs i v s). Qed.
Print Assumptions C03_relaxation_step_is_the_source.

Theorem C03_update_jumps_is_the_iteration_of_that_step : forall {C} c offs (l : list (instr_ C)) vals cur,
  update_jumps c l vals offs cur = SrcRelaxTie.run2 c offs l vals cur false.
Proof. intros. apply SrcRelaxTie.update_jumps_is_the_iteration. Qed.
Print Assumptions C03_update_jumps_is_the_iteration_of_that_step.

(* and so is the header the encoder writes: how from_code_data assembles the flag set (function flags, kind flag,
   VARARGS / VARKEYWORDS through args_to_input with the assertion that the variable table starts with the parameter names,
   NOFREE when there are neither free nor cell variables, annotations, NESTED) and the three argument counts, re-translated
   on every run (Gen/SrcHeader.v, EncodeHeader), is model_encode_header for all inputs - and encode_code is blocks_to_bytes,
   that header, from_flags_data, from_line_mapping and the CodeType constructor (SrcHeaderTie.encode_code_header) *)
From PCD Require Gen.SrcHeader Proofs.SrcHeaderTie.
Theorem C03_encoder_header_is_the_source : forall ty varnames fe ce fa ne,
  PCD.Gen.SrcHeader.EncodeHeader.header ty varnames fe ce fa ne
  = SrcHeaderTie.model_encode_header ty varnames fe ce fa ne.
Proof. exact SrcHeaderTie.encode_header_tie. Qed.
Print Assumptions C03_encoder_header_is_the_source.

(* ... and the rest of from_code_data around that header - the unpacking of blocks_to_bytes' result, consts, the additional
   line put back, from_flags_data, the lines shifted by -first_line_number, from_line_mapping, nlocals = len(varnames) and the
   code object built under either constructor signature (NotImplementedError for positional-only arguments before 3.8) - is
   re-translated too (Gen/SrcTail.v): for every configuration and all data, encode_code IS blocks_to_bytes followed by the
   translated header followed by the translated tail *)
From PCD Require Gen.SrcTail Proofs.SrcTailTie.
Theorem C03_encoder_is_blocks_to_bytes_then_the_source_header_and_tail :
  forall c d code lm0 names varnames cellvars constants,
  blocks_to_bytes pkey_eqb (fun k => is_str_const (fst k)) (KInner INone, PInner INone)
     (fun s => (KInner (IStr s), PInner (IStr s))) c (cd_blocks d) (cd_addargs d) (cd_freevars d) (cd_type d)
  = OK (code, lm0, names, varnames, cellvars, constants) ->
  encode_code c d =
  match PCD.Gen.SrcHeader.EncodeHeader.header (cd_type d) varnames
          (match cd_freevars d with [] => true | _ => false end) (match cellvars with [] => true | _ => false end)
          (cd_future_annotations d) (cd_nested d) with
  | Err e => Err e
  | OK (argcount, posonly, kwonly, fl) =>
      PCD.Gen.SrcTail.tail c d code lm0 names varnames cellvars constants argcount posonly kwonly fl
  end.
Proof. exact SrcTailTie.encode_code_is_the_source. Qed.
Print Assumptions C03_encoder_is_blocks_to_bytes_then_the_source_header_and_tail.

(* the encoder's tables: FromArgs.__setitem__ (a second, different value at an occupied index raises) and FromArgs.add
   (an override pins the index; a known value keeps its index; a new value is stored at len(table) THROUGH __setitem__, so a
   pinned entry that owns that slot makes it raise), re-translated on every run, are the model's *)
From PCD Require Model.TableOps Gen.SrcTables Proofs.SrcTablesTie.
Theorem C03_encoder_tables_are_the_source : forall {T} (keq : T -> T -> bool) (st : fromargs T) a,
  (forall i, PCD.Gen.SrcTables.fa_setitem keq st i a = fa_setitem keq st i a) /\
  (forall ov, PCD.Gen.SrcTables.fa_add keq st a ov = fa_add keq st a ov).
Proof. intros. split; intros; [apply SrcTablesTie.fa_setitem_tie | apply SrcTablesTie.fa_add_tie]. Qed.
Print Assumptions C03_encoder_tables_are_the_source.

(* the prologue of blocks_to_bytes: four empty tables, varnames seeded with the parameter names in signature order (through
   __setitem__), and the docstring - whenever it is not None, the empty string included - pinned at slot 0 of the constants;
   re-translated on every run (Gen/SrcIter.v, enc_init), it is the model's enc_init *)
From PCD Require Gen.SrcIter Proofs.SrcPrologueTie.
Theorem C03_encoder_prologue_is_the_source : forall {C} (keq : C -> C -> bool) (str_c : str -> C) bt,
  PCD.Gen.SrcIter.enc_init keq str_c bt = enc_init keq str_c bt.
Proof. intros. apply SrcPrologueTie.enc_init_tie. Qed.
Print Assumptions C03_encoder_prologue_is_the_source.

(* the whole of blocks_to_bytes in outline: the translated prologue, then the translated first pass (every operand through
   from_arg in order - the `args` dict read as the list of values in iteration order -, the additional args for their effect
   on the tables, the free-variable operands shifted by the number of cell variables), then the relaxation and the assembly
   (whose steps are tied above) and to_tuple on the four tables (tied below) *)
Theorem C03_blocks_to_bytes_is_the_source_in_outline :
  forall {C} (keq : C -> C -> bool) (is_str : C -> bool) (none_c : C) (str_c : str -> C) c blocks additional freevars bt,
  blocks_to_bytes keq is_str none_c str_c c blocks additional freevars bt =
  match PCD.Gen.SrcIter.enc_init keq str_c bt with
  | Err e => Err e
  | OK st0 =>
      match PCD.Gen.SrcIter.first_pass keq is_str none_c blocks additional freevars bt st0 with
      | Err e => Err e
      | OK (vals1, st2) =>
          match relax (3 * length (concat blocks) + 2) c blocks vals1 with
          | Err e => Err e
          | OK vals2 =>
              match assemble c (concat blocks) vals2 0 empty_linemap with
              | Err e => Err e
              | OK (code, lm) =>
                  match fa_to_tuple (e_names st2), fa_to_tuple (e_varnames st2),
                        fa_to_tuple (e_cellvars st2), fa_to_tuple (e_consts st2) with
                  | OK n, OK v, OK cv, OK k => OK (code, lm, n, v, cv, k)
                  | Err e, _, _, _ => Err e
                  | _, Err e, _, _ => Err e
                  | _, _, Err e, _ => Err e
                  | _, _, _, Err e => Err e
                  end
              end
          end
      end
  end.
Proof. intros. apply SrcPrologueTie.blocks_to_bytes_outline. Qed.
Print Assumptions C03_blocks_to_bytes_is_the_source_in_outline.

(* FromArgs.to_tuple, by which blocks_to_bytes turns each table into the tuple the code object carries: the test of the key set
   against range(len) and the values of the items sorted by key (insertion sort on the keys as the meaning of sorted(d.items())),
   re-translated on every run, IS the model's "values at 0, 1, ..., len-1, ValueError when one is missing" - for every table with
   distinct keys; the empty table has distinct keys and __setitem__ / add keep them distinct, so every table the encoder builds *)
From PCD Require Proofs.SrcToTupleTie.
From Coq Require Import Lists.List.
Theorem C03_to_tuple_is_the_source : forall {T} (st : fromargs T),
  NoDup (okeys (fa_items st)) -> PCD.Gen.SrcTables.fa_to_tuple st = fa_to_tuple st.
Proof. intros T st. apply SrcToTupleTie.fa_to_tuple_tie. Qed.
Print Assumptions C03_to_tuple_is_the_source.

Theorem C03_encoder_tables_keep_distinct_keys : forall {T} (keq : T -> T -> bool),
  SrcToTupleTie.distinct_keys (@fromargs_empty T) /\
  (forall st i a st', SrcToTupleTie.distinct_keys st -> fa_setitem keq st i a = OK st' -> SrcToTupleTie.distinct_keys st') /\
  (forall st a ov i st', SrcToTupleTie.distinct_keys st -> fa_add keq st a ov = OK (i, st') -> SrcToTupleTie.distinct_keys st').
Proof.
  intros T keq. split; [apply SrcToTupleTie.empty_distinct|].
  split; [apply SrcToTupleTie.setitem_distinct | apply SrcToTupleTie.add_distinct].
Qed.
Print Assumptions C03_encoder_tables_keep_distinct_keys.

(* non-vacuity: a table filled out of order with a pinned slot; and one with a gap *)
Example C03_to_tuple_examples :
  PCD.Gen.SrcTables.fa_to_tuple (mkFromArgs [(2, 30); (0, 10); (1, 20)] []) = OK [10; 20; 30] /\
  PCD.Gen.SrcTables.fa_to_tuple (mkFromArgs [(0, 10); (2, 30)] []) = Err ValueError.
Proof. vm_compute. split; reflexivity. Qed.

(* and the code units and line entries written for one instruction: the body of the final loop of blocks_to_bytes,
   re-translated on every run (Gen/SrcLines.v, AssembleStep), writes - for every instruction with a positive number of code
   units, every operand value and every state of the output - the line entry of the instruction, its extra line offsets, the
   line entries of its EXTENDED_ARG prefixes and exactly the code units of the model's emit_units (prefixes first, the operand
   cut into bytes from the most significant one), or raises KeyError for an opcode name the interpreter does not know: the
   step of the model's assemble *)
From PCD Require Proofs.SrcAssembleTie.
Theorem C03_assembly_step_is_the_source : forall {C} c (i : instr_ C) v off0 av0 na0 by_ ln ad,
  0 < n_units (i_nargs i) v ->
  PCD.Gen.SrcLines.AssembleStep.step (if zmem (i_name i) (cfg_opcodes c) then OK (i_name i) else Err KeyError)
    (cfg_extended_arg c) (i_line i) (i_lineoffs i) (i_nargs i) v (PCD.Gen.SrcLines.AssembleStep.mk_st off0 av0 na0 by_ ln ad)
  = if negb (zmem (i_name i) (cfg_opcodes c)) then Err KeyError
    else OK (PCD.Gen.SrcLines.AssembleStep.mk_st (zlen by_) v (n_units (i_nargs i) v)
               (by_ ++ emit_units c (i_name i) v (Z.to_nat (n_units (i_nargs i) v)))
               (fold_left (fun d k => oset d k (i_line i))
                          (range2 (zlen by_ + 2) (zlen by_ + 2 * n_units (i_nargs i) v)) (oset ln (zlen by_) (i_line i)))
               (match i_lineoffs i with [] => ad | l => oset ad (zlen by_) l end)).
Proof. intros C c i v off0 av0 na0 by_ ln ad H. exact (SrcAssembleTie.assemble_step_tie c i v off0 av0 na0 by_ ln ad H). Qed.
Print Assumptions C03_assembly_step_is_the_source.
