(* C16 - The command line prints what the API returns for the same program.
   Model: Model/Cli.v (option validation of main()).  The composition "what is printed is the API's
   result" is glue around the API (C05, C07 carry its content); most of the assurance for C16 comes
   from the differential run of the check (subprocess output parsed and compared with the in-process
   API), as the evidence states. *)
From PCD Require Import Base.PyBase Base.Cfg Model.Data Model.Consts Model.Blocks Model.CodeData Model.Json
  Model.Cli Model.LineTable Spec.Lnotab Spec.Dis Model.ViewSer Proofs.C02_Statements Proofs.C01_Statements
  Proofs.C03b_Statements Proofs.C03c_Statements Proofs.C06_Statements Proofs.C07_Statements Proofs.NormalFormWf
  Proofs.NormalizePreserves Proofs.RoundTrip Proofs.CliProofs Proofs.SrcCliTie.
From PCD Require Gen.SrcCli.

Definition exactly_one (a b c d : bool) : Prop :=
  (a = true /\ b = false /\ c = false /\ d = false) \/ (a = false /\ b = true /\ c = false /\ d = false) \/
  (a = false /\ b = false /\ c = true /\ d = false) \/ (a = false /\ b = false /\ c = false /\ d = true).

(* the command accepts exactly one program source, counted by presence (an empty -c string is a source) *)
Theorem C16_accepts_iff_exactly_one_source : forall file cmd mod_ eval_,
  cli_accepts file cmd mod_ eval_ = true <-> exactly_one file cmd mod_ eval_.
Proof.
  intros [] [] [] []; unfold exactly_one; vm_compute; split; intros H;
    try discriminate; try reflexivity; intuition discriminate.
Qed.
Print Assumptions C16_accepts_iff_exactly_one_source.

(* the printed value is the normalized data by default and the decoded data with --no-normalize *)
Theorem C16_printed_value : forall (D : Type) (normalize : D -> D) d,
  cli_data normalize false d = normalize d /\ cli_data normalize true d = d.
Proof. intros; split; reflexivity. Qed.
Print Assumptions C16_printed_value.

(* --json: the JSON section printed for a program loads back (from_json_data) to the value the command
   prints - the normalized data by default, the decoded data with --no-normalize.  (C07 + C06) *)
Theorem C16_json_section_loads_back_to_the_printed_value : forall (no_normalize : bool) d,
  wfj_cd d = true ->
  exists d', code_data_from_json (code_data_to_json (cli_data normalize no_normalize d)) = OK d'
             /\ cd_eqb (cli_data normalize no_normalize d) d' = true.
Proof. exact cli_json_loads_back. Qed.
Print Assumptions C16_json_section_loads_back_to_the_printed_value.

(* --dis-after with --no-normalize disassembles to_code of the decoded data: that IS the original code
   object (C01), so the two listings are listings of the same object *)
Theorem C16_dis_after_without_normalize_is_dis_of_the_same_code : forall c code d,
  rt_wf_deep c (PCode code) && rt_extra_deep c (PCode code) = true ->
  to_code_data c code = OK d ->
  from_code_data c (cli_data normalize true d) = OK code.
Proof. exact C01_roundtrip_x. Qed.
Print Assumptions C16_dis_after_without_normalize_is_dis_of_the_same_code.

(* --dis-after by default disassembles to_code of the NORMALIZED data: CPython reads it as the same
   instruction stream as the original (opcodes, resolved operands, jump structure, lines) - offsets
   and operand widths may differ.  (C05) *)
Theorem C16_dis_after_shows_the_same_instructions : S_C05_view.
Proof. exact C05_view. Qed.
Print Assumptions C16_dis_after_shows_the_same_instructions.

(* ---- tie to the source by proof.  Gen/SrcCli.v is re-translated from code_data/_cli.py:main on every run: the test that
   decides whether the sources given are acceptable, and the sections main prints, in order, with the value each shows. *)

(* the source counts the program sources by presence (a source given with an empty value counts), as the model does *)
Theorem C16_usage_rule_is_the_source : forall file cmd mod_ eval_ : bool * bool,
  SrcCli.accepts file cmd mod_ eval_ = cli_accepts (fst file) (fst cmd) (fst mod_) (fst eval_).
Proof. exact accepts_tie. Qed.
Print Assumptions C16_usage_rule_is_the_source.

(* whatever output flags are given, every section of main's output that shows data - the printed value, the --json section,
   the code object of --dis-after - shows the same value: normalize(decode) by default, decode with --no-normalize *)
Theorem C16_every_section_shows_the_printed_value : forall (D : Type) (normalize : D -> D)
    show_dis show_source show_dis_after no_normalize json has_source a v d,
  In a (SrcCli.actions show_dis show_source show_dis_after no_normalize json has_source) ->
  action_value a = Some v -> dval_denote normalize v d = cli_data normalize no_normalize d.
Proof. exact @actions_show_cli_data. Qed.
Print Assumptions C16_every_section_shows_the_printed_value.

(* the sections and their order are the model's; the data is printed exactly once whatever the flags *)
Theorem C16_sections_are_the_source : forall show_dis show_source show_dis_after no_normalize json has_source,
  SrcCli.actions show_dis show_source show_dis_after no_normalize json has_source
    = cli_actions show_dis show_source show_dis_after no_normalize json has_source
  /\ zlen (filter (fun a => match a with APrint _ => true | _ => false end)
            (SrcCli.actions show_dis show_source show_dis_after no_normalize json has_source)) = 1%Z.
Proof. intros; split; [apply actions_tie | apply actions_always_print]. Qed.
Print Assumptions C16_sections_are_the_source.
