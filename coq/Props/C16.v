(* C16 - The command line prints what the API returns for the same program.
   Model: Model/Cli.v (option validation of main()).  The composition "what is printed is the API's
   result" is glue around the API (C05, C07 carry its content); most of the assurance for C16 comes
   from the differential run of the check (subprocess output parsed and compared with the in-process
   API), as the evidence states. *)
From PCD Require Import Base.PyBase Model.Cli.

Definition exactly_one (a b c d : bool) : Prop :=
  (a = true /\ b = false /\ c = false /\ d = false) \/ (a = false /\ b = true /\ c = false /\ d = false) \/
  (a = false /\ b = false /\ c = true /\ d = false) \/ (a = false /\ b = false /\ c = false /\ d = true).

(* the command accepts exactly one program source, counted by presence (an empty -c string is a source) *)
Theorem C16_accepts_iff_exactly_one_source : forall file cmd mod_ eval_,
  cli_accepts file cmd mod_ eval_ = true <-> exactly_one file cmd mod_ eval_.
Proof.
  intros [] [] [] []; unfold exactly_one; vm_compute; split; intros H;
    try discriminate; try reflexivity; intuition discriminate.
Qed.
Print Assumptions C16_accepts_iff_exactly_one_source.

(* the printed value is the normalized data by default and the decoded data with --no-normalize *)
Theorem C16_printed_value : forall (D : Type) (normalize : D -> D) d,
  cli_data normalize false d = normalize d /\ cli_data normalize true d = d.
Proof. intros; split; reflexivity. Qed.
Print Assumptions C16_printed_value.
