(* C11 - Flags convert without loss and nothing unrepresentable is silently dropped.
   Statements only; proofs in Proofs/FlagsProofs.v.  Model: Model/Flags.v (to_flags_data with the
   transcription of enum._decompose, from_flags_data), tied to code_data/_flags_data.py by the
   correspondence run; the flag tables Gen/Cfg3x.v are read from the interpreters on every run.
   All theorems hold for EVERY well-formed flag table, i.e. for any interpreter version. *)
From PCD Require Import Base.PyBase Base.Cfg Model.Flags Proofs.C11_Statements Proofs.FlagsProofs
  Gen.Cfg37 Gen.Cfg38 Gen.Cfg39 Gen.Cfg310.

(* word -> names -> word is the identity (every combination of known flags, all 2^n at once) *)
Theorem C11_word_names_word : forall c w fs,
  flags_wf (cfg_flags c) = true ->
  to_flags_data c w = OK fs -> from_flags_data c fs = OK w.
Proof. exact from_to_flags. Qed.
Print Assumptions C11_word_names_word.

(* a word containing any bit outside the table makes the conversion raise; nothing is dropped *)
Theorem C11_unknown_bit_raises : forall c w,
  flags_wf (cfg_flags c) = true ->
  Z.land w (Z.lnot (known_mask c)) <> 0 -> to_flags_data c w = Err ValueError.
Proof. exact unknown_raises. Qed.
Print Assumptions C11_unknown_bit_raises.

(* every word made of known flags converts, to exactly the names whose bit is set *)
Theorem C11_known_word_converts : forall c w,
  flags_wf (cfg_flags c) = true ->
  Z.land w (Z.lnot (known_mask c)) = 0 ->
  to_flags_data c w
  = OK (map fst (filter (fun fv : flag * Z => negb (Z.land (snd fv) w =? 0)) (cfg_flags c))).
Proof. exact known_converts. Qed.
Print Assumptions C11_known_word_converts.

(* names -> word -> names is the identity on sets of known names *)
Theorem C11_names_word_names : forall c fs w,
  flags_wf (cfg_flags c) = true ->
  distinct_Z (map flag_id fs) = true ->
  from_flags_data c fs = OK w ->
  exists fs', to_flags_data c w = OK fs' /\ flag_ids fs' = flag_ids fs.
Proof. exact to_from_flags. Qed.
Print Assumptions C11_names_word_names.

(* the premise holds for the tables of the four interpreters (regenerated on every run) *)
Example C11_tables_well_formed :
  flags_wf (cfg_flags Cfg37.cfg) = true /\ flags_wf (cfg_flags Cfg38.cfg) = true /\
  flags_wf (cfg_flags Cfg39.cfg) = true /\ flags_wf (cfg_flags Cfg310.cfg) = true.
Proof. vm_compute. repeat split; reflexivity. Qed.

(* Tie of the header case analysis to the current source, for ALL inputs.  Gen/SrcHeader.v is the translation,
   regenerated on every run, of the statements of to_code_data between args_from_input and bytes_to_blocks: the NOFREE
   consistency check, the removal of NOFREE / annotations / NESTED, the split on {NEWLOCALS, OPTIMIZED} (neither:
   no arguments allowed, raise - not assert; both: docstring rule, at most one kind flag; one: raise), and the final
   "unknown flags" test.  It equals the segment of the model's decode_code (model_header), and decode_code factors
   through that segment - so "raises rather than loses" in the model is what the source's statements say now. *)
From PCD Require Model.LineTable Model.Blocks Model.CodeData Gen.Src Gen.SrcHeader Proofs.SrcHeaderTie.
Theorem C11_header_case_analysis_is_the_source : forall a constants nofree fl1,
  PCD.Gen.SrcHeader.Header.header a (SrcHeaderTie.doc_of constants) nofree fl1
  = SrcHeaderTie.model_header a constants nofree fl1.
Proof. exact SrcHeaderTie.header_tie. Qed.
Print Assumptions C11_header_case_analysis_is_the_source.

(* and the two conversions themselves: to_flags_data (zero word, enum._decompose, raise on bits no member covers, the names of
   the members) and from_flags_data (the bitwise or of the members' values, AttributeError on an unknown name), re-translated
   on every run (Gen/SrcFlags.v), are the model's for every configuration, word and list of names *)
From PCD Require Base.PyImp Gen.SrcFlags Proofs.SrcFlagsTie.
Theorem C11_flag_conversions_are_the_source : forall c,
  (forall flags, PCD.Gen.SrcFlags.to_flags_data c flags = to_flags_data c flags) /\
  (forall fs, PCD.Gen.SrcFlags.from_flags_data c fs = from_flags_data c fs).
Proof. intros c. split; intros; [apply SrcFlagsTie.to_flags_data_tie | apply SrcFlagsTie.from_flags_data_tie]. Qed.
Print Assumptions C11_flag_conversions_are_the_source.
