(* C12 - API calls are pure: no input mutation, repeatable, no shared mutable state.
   Statements only; proof in Proofs/HeapSound.v.  Model: Model/HeapOps.v (a language for the statements of
   the loaders that allocate / alias / read / mutate containers, its heap semantics, and the static check
   [safe]).  The programs Gen/SrcHeap.v are regenerated from code_data/_json_data.py, _normalize.py and
   dataclass_hide_default.py by harness/translate_src.py on every run, so the Example below is re-checked
   against what the code says now.  (Repeatability and independence of call history hold trivially in the
   functional model - Model/Json.v, Model/CodeData.v have no state - and are therefore decided by the
   history correspondence and the snapshot oracle of the check, not by a theorem.) *)
From Coq Require Import List Bool Arith.
Import ListNotations.
From PCD Require Import Model.HeapOps Proofs.HeapSound Gen.SrcHeap.

(* a function accepted by the static check never modifies an object that existed before the call:
   whatever the heap, the bindings of its parameters, and the path taken through branches and loops *)
Theorem C12_accepted_functions_do_not_modify_existing_objects : forall params p h e h' e',
  safe params p = true ->
  exec (h, e) p (h', e') ->
  length h <= length h' /\
  forall a, a < length h -> nth_error h' a = nth_error h a.
Proof. exact safe_sound. Qed.
Print Assumptions C12_accepted_functions_do_not_modify_existing_objects.

(* every function of the JSON loaders / dumper / normalizer, as translated from the current source, is accepted *)
Example C12_loaders_are_accepted :
  forallb (fun p : list var * list hop => safe (fst p) (snd p)) loader_programs = true.
Proof. vm_compute. reflexivity. Qed.

(* the check is not vacuous: it rejects a write through an item read out of the argument (the shape of the
   repaired defect: tp = value["type"]; tp["args"] = ...) and accepts the repaired shape *)
Example C12_check_rejects_write_through_input :
  safe [0] [HFresh 0; HGet 2 2; HMutate 2] = false /\ safe [0] [HFresh 0; HFresh 2; HMutate 2; HMutate 0] = true.
Proof. vm_compute. split; reflexivity. Qed.
