(* C12 - API calls are pure: no input mutation, repeatable, no shared mutable state.
   Statements only; proof in Proofs/HeapSound.v.  Model: Model/HeapOps.v (a language for the statements of
   the loaders that allocate / alias / read / mutate containers, its heap semantics, and the static check
   [safe]).  The programs Gen/SrcHeap.v are regenerated from code_data/_json_data.py, _normalize.py and
   dataclass_hide_default.py by harness/translate_src.py on every run, so the Example below is re-checked
   against what the code says now.  (Repeatability and independence of call history hold trivially in the
   functional model - Model/Json.v, Model/CodeData.v have no state - and are therefore decided by the
   history correspondence and the snapshot oracle of the check, not by a theorem.)
   Third clause (no shared mutable state in returned values): Model/FreshDoc.v abstracts a function to the
   expressions it can return; Gen/SrcFresh.v is that abstraction of value_to_json, code_data_to_json and
   normalize, re-translated from the source on every run; Proofs/FreshProofs.v proves the check sound. *)
From Coq Require Import List Bool Arith.
Import ListNotations.
From PCD Require Import Model.HeapOps Proofs.HeapSound Gen.SrcHeap Model.FreshDoc Proofs.FreshProofs Gen.SrcFresh.

(* a function accepted by the static check never modifies an object that existed before the call:
   whatever the heap, the bindings of its parameters, and the path taken through branches and loops *)
Theorem C12_accepted_functions_do_not_modify_existing_objects : forall params p h e h' e',
  safe params p = true ->
  exec (h, e) p (h', e') ->
  length h <= length h' /\
  forall a, a < length h -> nth_error h' a = nth_error h a.
Proof. exact safe_sound. Qed.
Print Assumptions C12_accepted_functions_do_not_modify_existing_objects.

(* every function of the JSON loaders / dumper / normalizer, as translated from the current source, is accepted *)
Example C12_loaders_are_accepted :
  forallb (fun p : list var * list hop => safe (fst p) (snd p)) loader_programs = true.
Proof. vm_compute. reflexivity. Qed.

(* the check is not vacuous: it rejects a write through an item read out of the argument (the shape of the
   repaired defect: tp = value["type"]; tp["args"] = ...) and accepts the repaired shape *)
Example C12_check_rejects_write_through_input :
  safe [0] [HFresh 0; HGet 2 2; HMutate 2] = false /\ safe [0] [HFresh 0; HFresh 2; HMutate 2; HMutate 0] = true.
Proof. vm_compute. split; reflexivity. Qed.

(* a function whose returnable expressions contain no module-level / closure / default-argument object
   returns values all of whose containers were allocated by the call or are containers of its argument -
   whatever the globals hold, however often comprehensions iterate, through any depth of recursive calls *)
Theorem C12_accepted_functions_return_fresh_or_argument_containers :
  forall (P : prog) bound genv, prog_ok P = true ->
  forall arg e v, eval P bound genv arg e v -> no_global e = true ->
  forall a, In a (addrs v) -> bound <= a \/ In a (addrs arg).
Proof. exact fresh_sound. Qed.
Print Assumptions C12_accepted_functions_return_fresh_or_argument_containers.

(* to_json_data / normalize on frozen CodeData (no container in the argument: C08): every dict, list and
   object of the result is new - mutating a returned document cannot reach the CodeData, a later call's
   document or any other object *)
Theorem C12_documents_are_made_of_new_containers : forall (P : prog) bound genv f body e arg v,
  prog_ok P = true ->
  nth_error P f = Some body -> In e body ->
  addrs arg = [] ->
  eval P bound genv arg e v ->
  forall a, In a (addrs v) -> bound <= a.
Proof. exact fresh_document. Qed.
Print Assumptions C12_documents_are_made_of_new_containers.

(* value_to_json, code_data_to_json and normalize, as translated from the current source, are accepted *)
Example C12_to_json_and_normalize_are_accepted : prog_ok fresh_prog = true.
Proof. vm_compute. reflexivity. Qed.

(* non-vacuity: a function that can return a module-level dict is rejected, and can leak it *)
Example C12_check_rejects_returning_a_global :
  prog_ok [[FChoice (FNew [FImm]) FGlobal]] = false
  /\ eval [[FGlobal]] 10 [VCon 3 []] VImm FGlobal (VCon 3 []).
Proof. split; [reflexivity|]. apply EGlobal with (g := VCon 3 []); [now left|apply SubRefl]. Qed.
