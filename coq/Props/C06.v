(* C06 - Normalization yields a canonical form, whatever the operation history.
   Statements only; proofs in Proofs/NormalizeProofs.v (with JsonProofs, DecodeView, BlocksPartition).
   Model: Model/CodeData.v normalize, tied to code_data/_normalize.py by the correspondence run.
   Proved here: idempotence, stability under every history of JSON round trips and normalizations (any
   length), and canonicity: the normal form of decoded data is a function of CPython's reading of the
   code alone.  Stability under the code round trip (to_code / from_code of NORMALIZED data):
   C06_normal_form_stable_under_the_code_roundtrip (Proofs/CodeRoundTrip*.v, composing C02, C03, the
   re-decode theorem and canonicity).  Mixed histories (code and JSON round trips interleaved) follow by
   alternating that theorem with C06_history_stable; the history oracle of the check runs them. *)
From PCD Require Import Base.PyBase Base.Cfg Model.Data Model.Consts Model.Blocks Model.CodeData Model.Json
  Spec.Lnotab Spec.Dis Model.ViewSer Proofs.C02_Statements Proofs.C07_Statements Proofs.C06_Statements
  Proofs.JsonProofs Proofs.NormalizeProofs Model.Flags Proofs.C01_Statements Proofs.NormalFormWf
  Proofs.C06b_Statements Proofs.CodeRoundTrip.
From PCD Require Gen.Cfg37 Gen.Cfg38 Gen.Cfg39 Gen.Cfg310.

Theorem C06_normalize_idempotent : forall d, normalize (normalize d) = normalize d.
Proof. exact nz_idempotent. Qed.
Print Assumptions C06_normalize_idempotent.

(* normalize is a function on values: equal data have equal normal forms *)
Theorem C06_normalize_respects_equality : forall a b,
  cd_eqb a b = true -> cd_eqb (normalize a) (normalize b) = true.
Proof. exact nz_congruence. Qed.
Print Assumptions C06_normalize_respects_equality.

(* every history over {JSON round trip, normalize}, of any length, leaves the normal form unchanged *)
Theorem C06_history_stable : forall ops d,
  wfj_cd d = true ->
  exists d', run6 ops d = OK d' /\ cd_eqb (normalize d') (normalize d) = true.
Proof. exact (history_stable_from json_roundtrip). Qed.
Print Assumptions C06_history_stable.

(* the normalized blocks of decoded data are rebuilt from dis's view of the code alone *)
Theorem C06_normal_form_is_a_function_of_the_view : forall c code ks d,
  view_wf c code ks = true ->
  decode_code c code ks = OK d ->
  co_code code <> [] ->
  cd_blocks (normalize d)
  = blocks_of_view (map_view normalize_const
      (dis_view c (co_code code) (co_names code) (co_varnames code) (co_freevars code)
                (co_cellvars code) ks (raw_entries (co_linetable code)) (co_firstlineno code))).
Proof. exact nz_of_view. Qed.
Print Assumptions C06_normal_form_is_a_function_of_the_view.

(* hence two code objects that CPython reads as the same instruction stream and that agree on the header
   fields the data keeps normalize to EQUAL data - whatever the order of their tables, unreferenced
   entries, redundant EXTENDED_ARG prefixes or the CO_NESTED flag *)
Theorem C06_canonical : forall c code1 ks1 d1 code2 ks2 d2,
  view_wf c code1 ks1 = true -> view_wf c code2 ks2 = true ->
  decode_code c code1 ks1 = OK d1 -> decode_code c code2 ks2 = OK d2 ->
  co_code code1 <> [] -> co_code code2 <> [] ->
  map_view normalize_const
    (dis_view c (co_code code1) (co_names code1) (co_varnames code1) (co_freevars code1) (co_cellvars code1)
              ks1 (raw_entries (co_linetable code1)) (co_firstlineno code1))
  = map_view normalize_const
    (dis_view c (co_code code2) (co_names code2) (co_varnames code2) (co_freevars code2) (co_cellvars code2)
              ks2 (raw_entries (co_linetable code2)) (co_firstlineno code2)) ->
  cd_type d1 = cd_type d2 -> cd_freevars d1 = cd_freevars d2 ->
  cd_filename d1 = cd_filename d2 -> cd_name d1 = cd_name d2 -> cd_firstline d1 = cd_firstline d2 ->
  cd_stacksize d1 = cd_stacksize d2 -> cd_future_annotations d1 = cd_future_annotations d2 ->
  normalize d1 = normalize d2.
Proof. exact canonical. Qed.
Print Assumptions C06_canonical.

(* code (in the decoder's domain) -> decode -> normalize -> to_code -> from_code -> normalize gives data
   equal (the library's ==) to the first normal form, for every configuration whose flag table is
   well-formed and names CO_NOFREE (cfg_flags_ok; true of the four generated configurations, below).
   kst is the constants table of the emitted code with the library-level constant each entry encodes.
   The statement for ALL configurations is false (CodeRoundTrip.C06_code_roundtrip_needs_cfg_flags_ok:
   a flag table naming GENERATOR twice breaks it), hence the premise. *)
Theorem C06_normal_form_stable_under_the_code_roundtrip : forall c code ks d d' code',
  cfg_flags_ok c = true ->
  view_wf c code ks && ops_known c (co_code code) = true -> co_code code <> [] ->
  zlen (co_freevars code) < 1073741824 -> zlen (co_varnames code) < 1073741824 ->
  nodup_str (co_freevars code) = true ->
  (0 <=? cfg_extended_arg c) && (cfg_extended_arg c <? 256) = true ->
  decode_code c code ks = OK d ->
  mapM_cd (fun k' => match from_const c k' with OK p => OK (k', p) | Err e => Err e end) (normalize d) = OK d' ->
  encode_code c d' = OK code' ->
  zlen (co_code code') < 1073741824 ->
  exists kst : list pconst,
    map snd kst = co_consts code' /\
    forall d2, decode_code c code' (map fst kst) = OK d2 ->
      cd_eqb (normalize d2) (normalize d) = true.
Proof. exact C06_code_roundtrip_cfg. Qed.
Print Assumptions C06_normal_form_stable_under_the_code_roundtrip.

Example C06_generated_configurations_have_well_formed_flag_tables :
  cfg_flags_ok Cfg37.cfg = true /\ cfg_flags_ok Cfg38.cfg = true /\
  cfg_flags_ok Cfg39.cfg = true /\ cfg_flags_ok Cfg310.cfg = true.
Proof. exact generated_cfgs_flags_ok. Qed.

(* Tie of normalize to the current source: Gen/SrcNorm.v holds, re-translated from code_data/_normalize.py on every
   run, one function per data class saying which fields `replace` resets and to what, which are normalized
   recursively, and which classes fall through unchanged; they are the model's, for every normalizer of nested
   constants - so the theorems above are about what normalize() does now (a field kept, or reset only on some
   interpreters, changes the translated term and breaks this obligation). *)
From PCD Require Gen.SrcNorm Proofs.SrcNormTie.
Theorem C06_normalize_is_the_source :
  (forall d, normalize d = PCD.Gen.SrcNorm.Norm.norm_cd normalize_const d) /\
  (forall k, normalize_const k =
     match k with KInner i => KInner i | KCode d => KCode (PCD.Gen.SrcNorm.Norm.norm_cd normalize_const d) end).
Proof. split; [exact SrcNormTie.normalize_tie | exact SrcNormTie.normalize_const_tie]. Qed.
Print Assumptions C06_normalize_is_the_source.
