(* C02 - Decoded instructions, operands, jumps and lines match CPython's own reading.
   Statement only; proof in Proofs/DecodeView.v.  Model: Model/CodeData.v decode_code (= to_code_data
   after the constants are converted), tied to the code by the correspondence run.  CPython side:
   Spec/Dis.v (dis._unpack_opargs, get_instructions' argval and jump targets, EXTENDED_ARG folded) and the
   line readers of Spec/Lnotab.v; both are compared with the real dis / co_lines / PyCode_Addr2Line on
   every run.  [view_wf] is a boolean evaluated on every corpus code object by the check. *)
From PCD Require Import Base.PyBase Base.Cfg Model.Data Model.LineTable Model.Blocks Model.CodeData
  Spec.Lnotab Spec.Dis Model.ViewSer Proofs.C02_Statements Proofs.DecodeView Proofs.C02deep_Statements
  Proofs.DecodeViewDeep
  Gen.Cfg37 Gen.Cfg38 Gen.Cfg39 Gen.Cfg310.

(* For every interpreter configuration, every code object and its decoded constants: the decoded
   blocks, read in order, are exactly the instructions dis reports - same opcode, same resolved
   name / local / cell / free variable / constant, each jump designating the instruction CPython would
   jump to with the same absolute/relative kind, and each line_number the line of the first code unit
   (None where CPython reports no line). *)
Theorem C02_decode_is_cpythons_reading : forall c code ks d,
  view_wf c code ks = true ->
  decode_code c code ks = OK d ->
  data_view (cd_blocks d)
  = dis_view c (co_code code) (co_names code) (co_varnames code) (co_freevars code) (co_cellvars code)
             ks (raw_entries (co_linetable code)) (co_firstlineno code).
Proof. exact C02_view. Qed.
Print Assumptions C02_decode_is_cpythons_reading.

(* the opcode-class premise holds for the four interpreters (regenerated on every run) *)
Example C02_opcode_tables_well_formed :
  cfg_ops_wf Cfg37.cfg = true /\ cfg_ops_wf Cfg38.cfg = true /\
  cfg_ops_wf Cfg39.cfg = true /\ cfg_ops_wf Cfg310.cfg = true.
Proof. vm_compute. repeat split; reflexivity. Qed.

(* Through all nesting levels: from_code of a code object whose every nested code object (at any depth in
   the constants) is in the decoder's domain gives data in which EVERY nested CodeData reads as CPython's
   own reading of the code object it was decoded from, the nested constants being those readings in turn
   (reads_as, Proofs/C02deep_Statements.v). *)
Theorem C02_every_nested_code_object_is_read_as_cpython_reads_it : forall c code d,
  view_wf_deep c (PCode code) = true -> to_code_data c code = OK d -> reads_as c (PCode code) (KCode d).
Proof. exact C02_deep_top. Qed.
Print Assumptions C02_every_nested_code_object_is_read_as_cpython_reads_it.

(* Tie of the EXTENDED_ARG folding to the current source, for ALL byte strings: the statement-level translation of
   _blocks._parse_bytes (Gen/SrcLines.v, module ParseBytes, regenerated on every run: an index loop over
   range(0, len(b), 2) with the accumulators arg / n_args, the C-int wrap, the yielded 5-tuples) computes exactly
   what the model's parse_bytes computes, and raises IndexError exactly when the model does. *)
From PCD Require Base.PyImp Gen.Src Gen.SrcLines Proofs.SrcBytesTie.
Theorem C02_parse_bytes_is_the_source : forall c b,
  PCD.Gen.SrcLines.ParseBytes.parse_bytes (cfg_extended_arg c) b = parse_bytes c b 0 0 0.
Proof. intros c b. apply SrcBytesTie.parse_bytes_tie; vm_compute; reflexivity. Qed.
Print Assumptions C02_parse_bytes_is_the_source.

Example C02_translated_parse_bytes_runs :
  PCD.Gen.SrcLines.ParseBytes.parse_bytes 144 [144; 1; 144; 2; 100; 3; 9; 0; 144; 255; 144; 255; 144; 255; 100; 255]
  = OK [(100, 66051, 3, 0, 6); (9, 0, 1, 6, 8); (100, -1, 4, 8, 16)].
Proof. vm_compute. reflexivity. Qed.

(* and so is the operand resolution: the elif chain of to_arg (jump scaling by interpreter version, relative jumps from
   the offset of the NEXT instruction, name / local / cell-then-free / constant tables, NoArg below HAVE_ARGUMENT),
   re-translated on every run (Gen/SrcToArg.v), is the model's to_arg for all inputs and table states *)
From PCD Require Gen.SrcToArg Proofs.SrcToArgTie.
Theorem C02_to_arg_is_the_source : forall {C} (keq : C -> C -> bool) c opcode a next_offset freevars st,
  PCD.Gen.SrcToArg.to_arg keq c opcode a next_offset freevars st = to_arg keq c opcode a next_offset freevars st.
Proof. exact @SrcToArgTie.to_arg_tie. Qed.
Print Assumptions C02_to_arg_is_the_source.
