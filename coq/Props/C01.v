(* C01 - Code -> data -> code round trip is lossless in every field.
   Statement only; proof in Proofs/RoundTrip.v (composition), EncodeValues.v (operand values, tables,
   jump relaxation), EncodeLines.v (line mapping split/join), InstrCodec.v (EXTENDED_ARG folding),
   TablesReplay.v, LT_*.v (line table codec), FlagsProofs.v, ArgsProofs.v.
   Model: Model/CodeData.v to_code_data / from_code_data (with the model of types.CodeType's own
   normalisation, pycode_new), tied to the code by the correspondence run.  rt_wf_deep / rt_extra_deep
   are boolean predicates evaluated on every corpus code object by the check (group wf-monitor). *)
From PCD Require Import Base.PyBase Base.Cfg Model.Data Model.Consts Model.Blocks Model.CodeData
  Proofs.C01_Statements Proofs.RoundTrip Proofs.InstrCodec Proofs.Total_Statements Proofs.DecodeTotal1
  Proofs.DecodeTotal Proofs.C01Full.
From PCD Require Gen.Src.

(* For every interpreter configuration and every well-formed code object, at any nesting depth:
   if decoding succeeds, encoding the result gives back the identical code object - every field of the
   record: counts, flags, code bytes, constants (recursively), names, variable tables, filename, name,
   first line, raw line table. *)
Theorem C01_code_data_code_is_identity : forall c code d,
  rt_wf_deep c (PCode code) && rt_extra_deep c (PCode code) = true ->
  to_code_data c code = OK d ->
  from_code_data c d = OK code.
Proof. exact C01_roundtrip_x. Qed.
Print Assumptions C01_code_data_code_is_identity.

(* one level, constants given: the composition step *)
Theorem C01_one_level : forall c code ks d d',
  rt_wf c code ks && rt_extra c code = true ->
  decode_code c code ks = OK d ->
  Forall2 (fun k p => from_const c k = OK p) ks (co_consts code) ->
  mapM_cd (fun k' => match from_const c k' with OK p => OK (k', p) | Err e => Err e end) d = OK d' ->
  encode_code c d' = OK code.
Proof. exact K3_level_x. Qed.
Print Assumptions C01_one_level.

(* leaf arithmetic and constants of the model are those of the current source (Gen/Src.v is regenerated
   from code_data/_blocks.py and _code_data.py on every run) *)
Theorem C01_instrsize_is_the_source : forall a, PCD.Gen.Src.instrsize a = PCD.Model.Blocks.instrsize a.
Proof. exact src_instrsize_tie. Qed.
Example C01_constants_are_the_source :
  PCD.Gen.Src.c_int_upper_limit = c_int_upper_limit /\ PCD.Gen.Src.c_int_length = c_int_length /\
  PCD.Gen.Src.FN_FLAGS = FN_FLAGS /\ PCD.Gen.Src.FN_TYPE_FLAGS = map fst FN_TYPE_FLAGS.
Proof. repeat split; vm_compute; reflexivity. Qed.

(* The whole property in one statement.  total_wf_deep is a boolean on the code object alone (every
   nesting level): the round-trip domain rt_wf / rt_extra plus a decodable header (hdr_ok: the flags word
   has only known bits and a coherent function / non-function shape, the *args / **kwargs slots exist,
   CO_NOFREE agrees with the tables, every table operand is in range, co_lnotab does not run past the
   code).  On that domain from_code SUCCEEDS and to_code of the result is the identical code object.
   The check evaluates total_wf_deep on every corpus code object of every run; the one known class of
   compiled code outside it is recorded as a finding (from __future__ import barry_as_FLUFL). *)
Theorem C01_from_code_succeeds_and_to_code_is_identity : forall c code,
  total_wf_deep c (PCode code) = true ->
  exists d, to_code_data c code = OK d /\ from_code_data c d = OK code.
Proof. exact C01_full. Qed.
Print Assumptions C01_from_code_succeeds_and_to_code_is_identity.

(* one level: under the round-trip domain, decoding succeeds exactly when the header is decodable *)
Theorem C01_decoding_succeeds_iff_header_ok : forall c code ks,
  rt_wf c code ks && rt_extra c code = true ->
  (hdr_ok c code ks = true <-> exists d, decode_code c code ks = OK d).
Proof. exact decode_total_iff. Qed.
Print Assumptions C01_decoding_succeeds_iff_header_ok.

(* Both functions of the round trip as the current source writes them.  Gen/SrcTail.v and Gen/SrcHeader.v are re-translated
   from code_data/_code_data.py on every run.
   Decoder: the translated body of to_code_data - version split of posonlyargcount, to_line_mapping shifted by co_firstlineno,
   to_flags_data, the keywords of ArgsInput, the header case analysis, the nine arguments of bytes_to_blocks,
   pop_additional_line(len(co_code)), the keywords of CodeData(...) - IS the model's decode_code.
   Encoder: encode_code IS blocks_to_bytes followed by the translated header and the translated tail (consts, additional line,
   from_flags_data, lines shifted by -first_line_number, from_line_mapping, nlocals, either CodeType signature). *)
From PCD Require Gen.SrcTail Gen.SrcHeader Proofs.SrcTailTie.
Theorem C01_to_code_data_is_the_source : forall c code constants,
  PCD.Gen.SrcTail.decode_code c code constants = decode_code c code constants.
Proof. exact SrcTailTie.decode_code_is_the_source. Qed.
Print Assumptions C01_to_code_data_is_the_source.

Theorem C01_from_code_data_is_the_source : forall c d code lm0 names varnames cellvars constants,
  blocks_to_bytes pkey_eqb (fun k => is_str_const (fst k)) (KInner INone, PInner INone)
     (fun s => (KInner (IStr s), PInner (IStr s))) c (cd_blocks d) (cd_addargs d) (cd_freevars d) (cd_type d)
  = OK (code, lm0, names, varnames, cellvars, constants) ->
  encode_code c d =
  match PCD.Gen.SrcHeader.EncodeHeader.header (cd_type d) varnames
          (match cd_freevars d with [] => true | _ => false end) (match cellvars with [] => true | _ => false end)
          (cd_future_annotations d) (cd_nested d) with
  | Err e => Err e
  | OK (argcount, posonly, kwonly, fl) =>
      PCD.Gen.SrcTail.tail c d code lm0 names varnames cellvars constants argcount posonly kwonly fl
  end.
Proof. exact SrcTailTie.encode_code_is_the_source. Qed.
Print Assumptions C01_from_code_data_is_the_source.
