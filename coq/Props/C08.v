(* C08 - CodeData is an immutable value: hash/equality contract and type-exact equality.
   Statements only; proofs in Proofs/ConstsProofs.v.  Model: Model/Consts.v (key_eqb = Constant.__eq__
   through constant_key; cd_eqb = the generated dataclass __eq__ of CodeData), tied to the code by the
   correspondence run; CPython side: Spec/ConstKey.v (partition of _PyCode_ConstantKey), compared with
   the real _PyCode_ConstantKey (ctypes) by the oracle.  Frozen-ness of the dataclasses is a property
   of the dataclasses runtime and is decided by complete enumeration of (class, field) pairs. *)
From PCD Require Import Base.PyBase Model.Args Model.Data Model.Consts Spec.ConstKey Proofs.ConstsProofs.
From PCD Require Gen.SrcFields.

(* equality of constants is an equivalence relation *)
Theorem C08_key_eq_equivalence :
  (forall a, key_eqb a a = true) /\
  (forall a b, key_eqb a b = true -> key_eqb b a = true) /\
  (forall a b c, key_eqb a b = true -> key_eqb b c = true -> key_eqb a c = true).
Proof. split; [exact key_eqb_refl | split; [exact key_eqb_sym | exact key_eqb_trans]]. Qed.
Print Assumptions C08_key_eq_equivalence.

(* equality of CodeData is an equivalence relation (any nesting of code constants) *)
Theorem C08_codedata_eq_equivalence :
  (forall a, cd_eqb a a = true) /\
  (forall a b, cd_eqb a b = true -> cd_eqb b a = true) /\
  (forall a b c, cd_eqb a b = true -> cd_eqb b c = true -> cd_eqb a c = true).
Proof. split; [exact cd_eqb_refl | split; [exact cd_eqb_sym | exact cd_eqb_trans]]. Qed.
Print Assumptions C08_codedata_eq_equivalence.

(* equality distinguishes exactly what CPython's constant table distinguishes, all NaNs identified *)
Theorem C08_eq_is_cpython_partition_mod_nan : forall a b,
  ikey_eqb a b = pykey_eqb (nancanon a) (nancanon b).
Proof. exact ikey_eqb_pykey. Qed.
Print Assumptions C08_eq_is_cpython_partition_mod_nan.

Theorem C08_eq_is_cpython_partition_nan_free : forall a b,
  nan_free a = true -> nan_free b = true -> ikey_eqb a b = pykey_eqb a b.
Proof. exact ikey_eqb_pykey_nan_free. Qed.
Print Assumptions C08_eq_is_cpython_partition_nan_free.

(* 1 / 1.0 / True, 0.0 / -0.0, str / bytes are pairwise different, also inside tuples *)
Theorem C08_type_exact :
  (forall z b, ikey_eqb (IInt z) (IBool b) = false) /\
  (forall z f, ikey_eqb (IInt z) (IFloat f) = false) /\
  (forall b f, ikey_eqb (IBool b) (IFloat f) = false) /\
  (forall s t, ikey_eqb (IStr s) (IBytes t) = false) /\
  ikey_eqb (IFloat 0) (IFloat 9223372036854775808) = false /\
  (forall l1 l2, ikey_eqb (ITuple l1) (ITuple l2) = true <-> Forall2 (fun x y => ikey_eqb x y = true) l1 l2) /\
  (forall l1 l2, ikey_eqb (ITuple l1) (IFrozenset l2) = false).
Proof.
  split; [intros; reflexivity|].
  split; [intros; reflexivity|].
  split; [intros; reflexivity|].
  split; [intros; reflexivity|].
  split; [exact ikey_pos_neg_zero|].
  split; [exact ikey_tuple_inv|].
  intros; reflexivity.
Qed.
Print Assumptions C08_type_exact.

(* a hash computed from the key that equality compares respects equality (the shape of Constant.__hash__) *)
Theorem C08_equal_implies_equal_hash :
  (forall a b, key_eqb a b = true -> chash a = chash b) /\
  (forall a b, cd_eqb a b = true -> cd_hash a = cd_hash b).
Proof. split; [exact chash_respects | exact cd_hash_respects]. Qed.
Print Assumptions C08_equal_implies_equal_hash.

(* Immutability, as far as the source text decides it: every dataclass of code_data/__init__.py is declared
   @dataclass(frozen=True), and no field is annotated with a mutable container type (list, dict, set, ...).
   Gen/SrcFields.v is re-translated from the source on every run; dropping frozen=True from one class, or
   typing a field as a list, breaks these obligations.  (That instances really reject assignment and that
   the values stored are tuples is the oracle's complete (class, field) enumeration at run time.) *)
Example C08_every_dataclass_is_declared_frozen :
  forallb (fun cf : PCD.Base.PyBase.str * bool => snd cf) PCD.Gen.SrcFields.source_frozen = true
  /\ length PCD.Gen.SrcFields.source_frozen = length PCD.Gen.SrcFields.source_fields.
Proof. split; vm_compute; reflexivity. Qed.
Example C08_no_field_has_a_mutable_container_type :
  PCD.Gen.SrcFields.source_mutable_fields = nil.
Proof. vm_compute. reflexivity. Qed.

(* Tie of the equality to the current source, for ALL pairs of constants at any nesting: Gen/SrcKey.v is the key
   function inner_constant_key of code_data/_constants.py, re-translated on every run (its isinstance chain, with
   bool before int; the helper bodies of constant_key / replace_nan / is_neg_zero checked against their expected
   text), into the small universe of Python values of Model/PyVal.v; pv_eqb is Python's == there (type objects,
   numbers compared by value across bool / int / float, -0.0 == 0.0, tuples in order, frozensets as sets).
   Comparing the keys the source builds IS the model's ikey_eqb - so the equivalence, the type-exact
   discrimination and the NaN identification proved above are statements about what Constant.__eq__ compares now. *)
From PCD Require Model.PyVal Gen.SrcKey Proofs.SrcKeyTie.
Theorem C08_equality_is_python_eq_on_the_keys_the_source_builds : forall a b,
  PCD.Model.PyVal.pv_eqb (PCD.Gen.SrcKey.key a) (PCD.Gen.SrcKey.key b) = ikey_eqb a b.
Proof. exact SrcKeyTie.key_eq_tie. Qed.
Print Assumptions C08_equality_is_python_eq_on_the_keys_the_source_builds.

(* non-vacuity: the universe does identify 1, True and 1.0 when they meet without their type tags (the keys keep
   them apart), and 0.0 with -0.0 *)
Example C08_python_eq_is_not_type_exact_by_itself :
  PCD.Model.PyVal.pv_eqb (PCD.Model.PyVal.PInt 1) (PCD.Model.PyVal.PBool true) = true /\
  PCD.Model.PyVal.pv_eqb (PCD.Model.PyVal.PInt 1) (PCD.Model.PyVal.PFloat 4607182418800017408) = true /\
  PCD.Model.PyVal.pv_eqb (PCD.Model.PyVal.PFloat 0) (PCD.Model.PyVal.PFloat 9223372036854775808) = true /\
  PCD.Model.PyVal.pv_eqb (PCD.Gen.SrcKey.key (IInt 1)) (PCD.Gen.SrcKey.key (IBool true)) = false /\
  PCD.Model.PyVal.pv_eqb (PCD.Gen.SrcKey.key (IFloat 0)) (PCD.Gen.SrcKey.key (IFloat 9223372036854775808)) = false.
Proof. vm_compute. repeat split; reflexivity. Qed.
