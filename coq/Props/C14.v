(* C14 - Iteration enumerates every nested code object.
   Statements only; proofs in Proofs/IterProofs.v.  Model: Model/CodeData.v iter_code_data /
   all_code_data (the constants table rebuilt by blocks_to_constants), tied to CodeData.__iter__ /
   all_code_data by the correspondence run. *)
From PCD Require Import Base.PyBase Base.Cfg Model.Data Model.Consts Model.Blocks Model.CodeData
  Proofs.C01_Statements Proofs.C14_Statements Proofs.IterProofs.

(* iterating decoded data yields exactly the code entries of the original constants table - each once,
   in table order, whether an instruction loads it once, twice or never *)
Theorem C14_iter_is_directly_nested : forall c code ks d,
  rt_wf c code ks = true ->
  decode_code c code ks = OK d ->
  iter_code_data d = OK (codes_of ks).
Proof. exact C14_iter. Qed.
Print Assumptions C14_iter_is_directly_nested.

(* all_code_data yields the object itself followed by one object for every code object reachable
   through the original's constants at any depth, each equal to decoding that code object on its own *)
Theorem C14_all_code_data_is_the_walk : forall c code d fuel,
  rt_wf_deep c (PCode code) = true ->
  to_code_data c code = OK d ->
  (depth_const (PCode code) <= fuel)%nat ->
  exists ds, all_code_data fuel d = OK ds /\
             Forall2 (fun x k => to_code_data c k = OK x) ds (walk_codes (PCode code)).
Proof. exact C14_all. Qed.
Print Assumptions C14_all_code_data_is_the_walk.

(* Tie to the current source by proof: Gen/SrcIter.v is re-translated on every run from blocks_to_constants (_blocks.py: the
   docstring slot, the two loops that send every Constant operand - of the instructions, then of the additional args - through
   from_arg, to_tuple), CodeData.__iter__ (the code entries of that table) and CodeData.all_code_data (self, then each nested one
   recursively); they are the model's functions, so the two theorems above are about what the iteration API does now. *)
From PCD Require Gen.SrcIter Proofs.SrcIterTie.
Theorem C14_iteration_is_the_source :
  (forall d, PCD.Gen.SrcIter.iter_code_data d = iter_code_data d) /\
  (forall fuel d, PCD.Gen.SrcIter.all_code_data fuel d = all_code_data fuel d).
Proof. split; [exact SrcIterTie.iter_code_data_tie | exact SrcIterTie.all_code_data_tie]. Qed.
Print Assumptions C14_iteration_is_the_source.
