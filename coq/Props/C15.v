(* C15 - The JSON form is portable across interpreter versions.
   Statements only; proofs in Proofs/PortableProofs.v (with JsonProofs).  The model of the JSON functions
   and of normalize (Model/Json.v, Model/CodeData.v) takes NO interpreter configuration: that they behave
   the same on every host is their type.  The substance is the check's run: this one version-free model is
   compared with the loader, normalizer and dumper on every available interpreter 3.7-3.13, on documents
   written under each of 3.7-3.10, and the oracle compares canonical dumps byte for byte. *)
From PCD Require Import Base.PyBase Base.Cfg Model.Data Model.Consts Model.CodeData Model.Json
  Proofs.C07_Statements Proofs.C15_Statements Proofs.PortableProofs.

(* the functions the property is about mention no configuration *)
Definition C15_version_free_functions :
  (code_data -> json) * (json -> res code_data) * (code_data -> code_data) :=
  (code_data_to_json, code_data_from_json, normalize).

(* a document written by to_json_data loads into data that re-serializes to the identical document *)
Theorem C15_reserialize_identity : forall d,
  wfj_cd d = true ->
  exists d', code_data_from_json (code_data_to_json d) = OK d' /\
             code_data_to_json d' = code_data_to_json d.
Proof. exact reserialize. Qed.
Print Assumptions C15_reserialize_identity.

(* and normalizing the loaded data gives the same document as normalizing the original *)
Theorem C15_normalize_commutes_with_the_cycle : forall d,
  wfj_cd d = true ->
  exists d', code_data_from_json (code_data_to_json d) = OK d' /\
             code_data_to_json (normalize d') = code_data_to_json (normalize d).
Proof. exact normalize_portable. Qed.
Print Assumptions C15_normalize_commutes_with_the_cycle.
