(* C15 - The JSON form is portable across interpreter versions.
   Statements only; proofs in Proofs/PortableProofs.v (with JsonProofs).  The model of the JSON functions
   and of normalize (Model/Json.v, Model/CodeData.v) takes NO interpreter configuration: that they behave
   the same on every host is their type.  The substance is the check's run: this one version-free model is
   compared with the loader, normalizer and dumper on every available interpreter 3.7-3.13, on documents
   written under each of 3.7-3.10, and the oracle compares canonical dumps byte for byte. *)
From PCD Require Import Base.PyBase Base.Cfg Model.Data Model.Consts Model.CodeData Model.Json
  Proofs.C07_Statements Proofs.C15_Statements Proofs.PortableProofs.

(* the functions the property is about mention no configuration *)
Definition C15_version_free_functions :
  (code_data -> json) * (json -> res code_data) * (code_data -> code_data) :=
  (code_data_to_json, code_data_from_json, normalize).

(* a document written by to_json_data loads into data that re-serializes to the identical document *)
Theorem C15_reserialize_identity : forall d,
  wfj_cd d = true ->
  exists d', code_data_from_json (code_data_to_json d) = OK d' /\
             code_data_to_json d' = code_data_to_json d.
Proof. exact reserialize. Qed.
Print Assumptions C15_reserialize_identity.

(* and normalizing the loaded data gives the same document as normalizing the original *)
Theorem C15_normalize_commutes_with_the_cycle : forall d,
  wfj_cd d = true ->
  exists d', code_data_from_json (code_data_to_json d) = OK d' /\
             code_data_to_json (normalize d') = code_data_to_json (normalize d).
Proof. exact normalize_portable. Qed.
Print Assumptions C15_normalize_commutes_with_the_cycle.

(* "Depends only on the data classes, not on the interpreter": a theorem about the reference graph of the
   CURRENT source (Gen/SrcDeps.v, re-translated from /repo/code_data/*.py on every run by
   harness/translate_deps.py; over-approximating: a method call refers to every method of that name, a class to
   its decorators, bases and field defaults, a function-level import is a reference).  Every path of references
   that starts at to_json_data, from_json_data or normalize stays inside the package and the interpreter-
   independent helper modules of Model/DepGraph.v (allowed): it never reaches sys (version_info), dis, opcode,
   platform, types, a host-dependent builtin (repr, hash, compile, ...) or eval / exec / globals. *)
From Coq Require Import String List.
From PCD Require Import Model.DepGraph Proofs.DepGraphProofs.
From PCD Require Gen.SrcDeps.

Theorem C15_json_and_normalize_never_consult_the_interpreter : forall e n,
  In e PCD.Gen.SrcDeps.entry_points -> path PCD.Gen.SrcDeps.deps e n -> allowed n = true.
Proof.
  apply (policy_sound PCD.Gen.SrcDeps.deps PCD.Gen.SrcDeps.entry_points
           (reach 4000 PCD.Gen.SrcDeps.deps PCD.Gen.SrcDeps.entry_points [])); vm_compute; reflexivity.
Qed.
Print Assumptions C15_json_and_normalize_never_consult_the_interpreter.

(* non-vacuity: the entry points exist in the graph, the closure is not trivial, and the policy does reject the
   version-dependent parts of the package (the line-table codec consults sys.version_info) *)
Example C15_reference_graph_is_not_trivial :
  (3 <=? length PCD.Gen.SrcDeps.entry_points)%nat = true /\
  (30 <=? length (reach 4000 PCD.Gen.SrcDeps.deps PCD.Gen.SrcDeps.entry_points []))%nat = true /\
  forallb (fun e => negb (Nat.eqb (length (succs PCD.Gen.SrcDeps.deps e)) 0)) PCD.Gen.SrcDeps.entry_points = true /\
  allowed "ext:sys.version_info" = false /\ allowed "ext:builtins.repr" = false /\ allowed "ext:<dynamic>.eval" = false /\
  forallb allowed (reach 4000 PCD.Gen.SrcDeps.deps ["pkg:__init__.CodeData.from_code"] []) = false.
Proof. vm_compute. repeat split; reflexivity. Qed.
