(* C05 - Normalization preserves the meaning of the code.
   Statement only; proof in Proofs/NormalizePreserves.v, composing NormalFormWf.v (the normal form of
   decoded data is well-formed data), EncodeCorrect.v (C03: what CPython reads in the code emitted for
   well-formed data) and DecodeView.v (C02: decoded data is CPython's reading of the original).
   The clause "executing both gives the same results, output, exceptions and traced line events" needs
   CPython's evaluation semantics, which no model here contains; it is NOT claimed as proved: equal
   symbolic views is the sufficient condition under CPython's rule that operands are fetched by index and
   jumps by offset, and the behavioural clause is exercised by the oracle of the check only (generated
   terminating programs executed before/after with stdout, exception and line trace compared). *)
From PCD Require Import Base.PyBase Base.Cfg Model.Data Model.Consts Model.LineTable Model.Blocks
  Model.CodeData Spec.Lnotab Spec.Dis Model.ViewSer Proofs.C02_Statements Proofs.C01_Statements
  Proofs.C03b_Statements Proofs.C03c_Statements Proofs.C06_Statements Proofs.NormalFormWf
  Proofs.NormalizePreserves.

(* For every configuration and every code object satisfying view_wf (and whose opcodes are known):
   (1) the normal form of the decoded data has the same instruction stream as CPython reads in the
       original - same opcodes, same resolved operands (nested code constants normalized in turn), same
       jump structure, same line for every instruction;
   (2) CPython reads the code object re-encoded from the normal form as that same stream (constants up
       to the key equality), and name, filename, first line, stack size and free variables are unchanged. *)
Theorem C05_normalize_preserves_the_symbolic_reading : forall c code ks d d' code',
  view_wf c code ks && ops_known c (co_code code) = true -> co_code code <> [] ->
  zlen (co_freevars code) < 1073741824 -> zlen (co_varnames code) < 1073741824 ->
  nodup_str (co_freevars code) = true ->
  (0 <=? cfg_extended_arg c) && (cfg_extended_arg c <? 256) = true ->
  decode_code c code ks = OK d ->
  mapM_cd (fun k' => match from_const c k' with OK p => OK (k', p) | Err e => Err e end) (normalize d) = OK d' ->
  encode_code c d' = OK code' ->
  zlen (co_code code') < 1073741824 ->
  data_view (cd_blocks (normalize d))
  = map_view normalize_const
      (dis_view c (co_code code) (co_names code) (co_varnames code) (co_freevars code) (co_cellvars code)
                ks (raw_entries (co_linetable code)) (co_firstlineno code)) /\
  exists kst : list pconst,
    map snd kst = co_consts code' /\
    view_agrees pkey_eqb (data_view (cd_blocks d'))
      (dis_view c (co_code code') (co_names code') (co_varnames code') (co_freevars code')
                (co_cellvars code') kst (raw_entries (co_linetable code')) (co_firstlineno code')) = true /\
    co_freevars code' = co_freevars code /\ co_stacksize code' = co_stacksize code /\
    co_firstlineno code' = co_firstlineno code /\ co_name code' = co_name code /\
    co_filename code' = co_filename code.
Proof. exact C05_view. Qed.
Print Assumptions C05_normalize_preserves_the_symbolic_reading.

(* the premise of the encoder theorem holds for every such normal form *)
Theorem C05_normal_form_is_well_formed_data : forall c code ks d d',
  view_wf c code ks && ops_known c (co_code code) = true -> co_code code <> [] ->
  zlen (co_freevars code) < 1073741824 -> zlen (co_varnames code) < 1073741824 ->
  nodup_str (co_freevars code) = true ->
  decode_code c code ks = OK d ->
  mapM_cd (fun k' => match from_const c k' with OK p => OK (k', p) | Err e => Err e end) (normalize d) = OK d' ->
  (0 <=? cfg_extended_arg c) && (cfg_extended_arg c <? 256) = true ->
  data_wf c d' = true.
Proof. exact C05_normal_form_wf_b. Qed.
Print Assumptions C05_normal_form_is_well_formed_data.
