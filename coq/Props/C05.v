(* C05 - Normalization preserves the meaning of the code.
   Statement only; proof in Proofs/NormalizePreserves.v, composing NormalFormWf.v (the normal form of
   decoded data is well-formed data), EncodeCorrect.v (C03: what CPython reads in the code emitted for
   well-formed data) and DecodeView.v (C02: decoded data is CPython's reading of the original).
   The clause "executing both gives the same results, output, exceptions and traced line events" needs
   CPython's evaluation semantics, which no model here contains.  What IS proved about execution
   (Spec/Exec.v, Proofs/ExecLayout.v) is parametric in the interpreter: for EVERY per-instruction
   semantics that observes the opcode, the resolved operand and the line only (and does not distinguish
   key-equal constants nor a nested code constant from its normal form), executing the original and
   executing the re-encoded normal form end in the same state with the same outcome after the same
   sequence of (opcode, line) events, for every fuel and every initial state
   (C05_same_execution_for_every_operand_level_interpreter).  That CPython's ceval is such an interpreter
   (operands fetched by index, jumps by offset, slots renamed consistently) is an assumption, exercised
   by the oracle of the check: generated terminating programs executed before/after with stdout,
   exception and line trace compared. *)
From PCD Require Import Base.PyBase Base.Cfg Model.Data Model.Consts Model.LineTable Model.Blocks
  Model.CodeData Spec.Lnotab Spec.Dis Model.ViewSer Proofs.C02_Statements Proofs.C01_Statements
  Proofs.C03b_Statements Proofs.C03c_Statements Proofs.C06_Statements Proofs.NormalFormWf
  Proofs.NormalizePreserves Spec.Exec Proofs.C05e_Statements Proofs.ExecLayout Model.Flags Spec.FuncKind
  Proofs.C11_Statements Proofs.C05h_Statements Proofs.NormalizeHeader.

(* For every configuration and every code object satisfying view_wf (and whose opcodes are known):
   (1) the normal form of the decoded data has the same instruction stream as CPython reads in the
       original - same opcodes, same resolved operands (nested code constants normalized in turn), same
       jump structure, same line for every instruction;
   (2) CPython reads the code object re-encoded from the normal form as that same stream (constants up
       to the key equality), and name, filename, first line, stack size and free variables are unchanged. *)
Theorem C05_normalize_preserves_the_symbolic_reading : forall c code ks d d' code',
  view_wf c code ks && ops_known c (co_code code) = true -> co_code code <> [] ->
  zlen (co_freevars code) < 1073741824 -> zlen (co_varnames code) < 1073741824 ->
  nodup_str (co_freevars code) = true ->
  (0 <=? cfg_extended_arg c) && (cfg_extended_arg c <? 256) = true ->
  decode_code c code ks = OK d ->
  mapM_cd (fun k' => match from_const c k' with OK p => OK (k', p) | Err e => Err e end) (normalize d) = OK d' ->
  encode_code c d' = OK code' ->
  zlen (co_code code') < 1073741824 ->
  data_view (cd_blocks (normalize d))
  = map_view normalize_const
      (dis_view c (co_code code) (co_names code) (co_varnames code) (co_freevars code) (co_cellvars code)
                ks (raw_entries (co_linetable code)) (co_firstlineno code)) /\
  exists kst : list pconst,
    map snd kst = co_consts code' /\
    view_agrees pkey_eqb (data_view (cd_blocks d'))
      (dis_view c (co_code code') (co_names code') (co_varnames code') (co_freevars code')
                (co_cellvars code') kst (raw_entries (co_linetable code')) (co_firstlineno code')) = true /\
    co_freevars code' = co_freevars code /\ co_stacksize code' = co_stacksize code /\
    co_firstlineno code' = co_firstlineno code /\ co_name code' = co_name code /\
    co_filename code' = co_filename code.
Proof. exact C05_view. Qed.
Print Assumptions C05_normalize_preserves_the_symbolic_reading.

(* the premise of the encoder theorem holds for every such normal form *)
Theorem C05_normal_form_is_well_formed_data : forall c code ks d d',
  view_wf c code ks && ops_known c (co_code code) = true -> co_code code <> [] ->
  zlen (co_freevars code) < 1073741824 -> zlen (co_varnames code) < 1073741824 ->
  nodup_str (co_freevars code) = true ->
  decode_code c code ks = OK d ->
  mapM_cd (fun k' => match from_const c k' with OK p => OK (k', p) | Err e => Err e end) (normalize d) = OK d' ->
  (0 <=? cfg_extended_arg c) && (cfg_extended_arg c <? 256) = true ->
  data_wf c d' = true.
Proof. exact C05_normal_form_wf_b. Qed.
Print Assumptions C05_normal_form_is_well_formed_data.

(* CPython's byte-offset execution of a code object is the index execution of its symbolic view:
   operand widths, EXTENDED_ARG prefixes and table order are invisible to every interpreter of the
   class described in Spec/Exec.v.  No premise on the code object. *)
Theorem C05_execution_is_a_function_of_the_symbolic_view :
  forall (K S : Type) (sem : Z -> dval K -> option Z -> S -> S * ctl) fuel c code names varnames
         freevars cellvars (consts : list K) table firstlineno s,
    run_code sem fuel c code names varnames freevars cellvars consts table firstlineno s
    = run_index sem fuel
        (dis_view c code names varnames freevars cellvars consts table firstlineno) 0 s.
Proof. exact exec_code. Qed.
Print Assumptions C05_execution_is_a_function_of_the_symbolic_view.

(* the execution clause of C05 for every operand-level interpreter *)
Theorem C05_same_execution_for_every_operand_level_interpreter :
  forall (S : Type) (sem : Z -> dval const -> option Z -> S -> S * ctl) c code ks d d' code',
    (forall op v line s, sem op (map_dval normalize_const v) line s = sem op v line s) ->
    (forall op v v' line s, val_match key_eqb v v' = true -> sem op v line s = sem op v' line s) ->
    view_wf c code ks && ops_known c (co_code code) = true -> co_code code <> [] ->
    zlen (co_freevars code) < 1073741824 -> zlen (co_varnames code) < 1073741824 ->
    nodup_str (co_freevars code) = true ->
    (0 <=? cfg_extended_arg c) && (cfg_extended_arg c <? 256) = true ->
    decode_code c code ks = OK d ->
    mapM_cd (fun k' => match from_const c k' with OK p => OK (k', p) | Err e => Err e end) (normalize d) = OK d' ->
    encode_code c d' = OK code' ->
    zlen (co_code code') < 1073741824 ->
    exists kst : list pconst,
      map snd kst = co_consts code' /\
      forall fuel s,
        let '(t1, s1, o1) :=
          run_code sem fuel c (co_code code) (co_names code) (co_varnames code) (co_freevars code)
                   (co_cellvars code) ks (raw_entries (co_linetable code)) (co_firstlineno code) s in
        let '(t2, s2, o2) :=
          run_code (fun op (v : dval pconst) => sem op (map_dval fst v)) fuel c (co_code code')
                   (co_names code') (co_varnames code') (co_freevars code') (co_cellvars code') kst
                   (raw_entries (co_linetable code')) (co_firstlineno code') s in
        s1 = s2 /\ o1 = o2 /\ map ev_key t1 = map ev_key t2.
Proof. exact C05_exec. Qed.
Print Assumptions C05_same_execution_for_every_operand_level_interpreter.

(* The header: normalization may change exactly two flag bits of the re-encoded code object - CO_NESTED is
   cleared and CO_NOFREE is re-derived from the emitted tables (an unreferenced cell variable is dropped) -
   and keeps the three argument counts and every other flag (generator / coroutine kind, *args, **kwargs,
   future annotations, OPTIMIZED, NEWLOCALS).  The three count premises are CPython's own constructor
   checks ("code: varnames is too small"); without them the statement is false
   (NormalizeHeader.C05_header_counterexample). *)
Theorem C05_normalization_keeps_the_header_up_to_nested_and_nofree : forall c code ks d d' code',
  flags_wf (cfg_flags c) = true -> flag_value (cfg_flags c) NOFREE <> None ->
  view_wf c code ks && ops_known c (co_code code) = true -> co_code code <> [] ->
  zlen (co_freevars code) < 1073741824 -> zlen (co_varnames code) < 1073741824 ->
  nodup_str (co_freevars code) = true ->
  (0 <=? cfg_extended_arg c) && (cfg_extended_arg c <? 256) = true ->
  0 <= (if cfg_v38 c then co_posonlyargcount code else 0) <= co_argcount code ->
  0 <= co_kwonlyargcount code ->
  co_argcount code + co_kwonlyargcount code <= zlen (co_varnames code) ->
  decode_code c code ks = OK d ->
  mapM_cd (fun k' => match from_const c k' with OK p => OK (k', p) | Err e => Err e end) (normalize d) = OK d' ->
  encode_code c d' = OK code' ->
  zlen (co_code code') < 1073741824 ->
  co_argcount code' = co_argcount code
  /\ co_kwonlyargcount code' = co_kwonlyargcount code
  /\ co_posonlyargcount code' = (if cfg_v38 c then co_posonlyargcount code else 0)
  /\ (forall f, f <> NESTED -> f <> NOFREE -> bit_set c f (co_flags code') = bit_set c f (co_flags code))
  /\ bit_set c NESTED (co_flags code') = false
  /\ bit_set c NOFREE (co_flags code')
     = match co_freevars code', co_cellvars code' with [], [] => true | _, _ => false end.
Proof. exact C05_header_corrected. Qed.
Print Assumptions C05_normalization_keeps_the_header_up_to_nested_and_nofree.

(* non-vacuity: the class of interpreters is inhabited by non-trivial members, e.g. a line tracer that
   takes a jump on every other step and halts on opcode 83 (RETURN_VALUE) *)
Example C05_interpreter_class_is_inhabited :
  exists sem : Z -> dval const -> option Z -> (list (option Z) * bool) -> (list (option Z) * bool) * ctl,
    (forall op v line s, sem op (map_dval normalize_const v) line s = sem op v line s) /\
    (forall op v v' line s, val_match key_eqb v v' = true -> sem op v line s = sem op v' line s) /\
    sem 83 DNoArg (Some 3) ([], false) = ([Some 3], true, CHalt) /\
    sem 113 (DJump 0 false) (Some 4) ([], true) = ([Some 4], false, CTake).
Proof.
  exists (fun op _ line s => ((line :: fst s, negb (snd s)),
                              if op =? 83 then CHalt else if snd s then CTake else CNext)).
  repeat split.
Qed.
