(* C13 - Blocks are exactly the jump-target partition of the instruction sequence.
   Statement only; proof in Proofs/BlocksPartition.v.  Model: Model/Blocks.v (bytes_to_blocks =
   parse_bytes, decode_instrs, split_blocks), tied to code_data/_blocks.py by the correspondence run. *)
From PCD Require Import Base.PyBase Base.Cfg Model.Data Model.LineTable Model.Blocks
  Proofs.BlocksPartition.

(* For any code object whose jump targets are instruction starts (the monitored assumption about
   compiled code): the blocks concatenate to the instruction sequence, none is empty, block k begins
   at the instruction whose offset is the k-th smallest element of {0} + jump targets (no more and no
   fewer block starts), every jump's target index is in range and designates the block starting at the
   instruction it pointed to, and every block after the first is the target of some jump. *)
Theorem C13_blocks_are_the_jump_target_partition :
  forall (C : Type) (keq : C -> C -> bool) c b lm names varnames freevars cellvars constants bt a
         blocks addl lm',
  bytes_to_blocks keq c b lm names varnames freevars cellvars constants bt a
    = OK (blocks, addl, lm') ->
  exists ps ois st1 st2,
    parse_bytes c b 0 0 0 = OK ps /\
    decode_instrs keq c ps freevars lm st1 = OK (ois, lm', st2) /\
    map fst ois = map p_first ps /\
    offsets_increasing ois /\
    (ois <> [] -> exists i r, ois = (0, i) :: r) /\
    let T := sorted_set (0 :: jump_targets ois) in
    split_blocks T ois [] false = OK blocks /\
    (ois <> [] -> targets_are_starts ois ->
       concat blocks = map (retarget T) (map snd ois) /\
       Forall (fun b => b <> []) blocks /\
       block_starts blocks (map fst ois) = T /\
       zlen blocks = zlen T /\
       (forall o i t rel, In (o, i) ois -> i_arg i = AJump t rel ->
          exists k, i_arg (retarget T i) = AJump k rel /\ 0 <= k < zlen blocks /\
                    nth_error (block_starts blocks (map fst ois)) (Z.to_nat k) = Some t) /\
       (forall k, 0 < k < zlen blocks ->
          exists o i t rel, In (o, i) ois /\ i_arg i = AJump t rel /\
                            i_arg (retarget T i) = AJump k rel /\
                            nth_error (block_starts blocks (map fst ois)) (Z.to_nat k) = Some t)).
Proof. intros C. exact (@bytes_to_blocks_partition C). Qed.
Print Assumptions C13_blocks_are_the_jump_target_partition.

(* Tie of the decoding loop to the current source: the body of `for opcode, arg, n_args, offset, next_offset in
   _parse_bytes(b)` is checked verbatim where it is fixed (the call of to_arg, the Instruction built with the two pops out of
   the line mapping, the append, the removal of the entries of the EXTENDED_ARG prefixes) and translated where it computes
   (Gen/SrcLines.v, DecodeStep): the target recorded for the partition is the target of every decoded Jump and of nothing
   else, and the size override is kept for jumps that really had prefixes - as in the model's decode_instrs *)
From PCD Require Base.PyImp Gen.SrcLines Proofs.SrcDecodeTie.
Theorem C13_recorded_targets_and_size_overrides_are_the_source :
  forall {C} (parg : arg_ C) n_args a offset next_offset s,
  PCD.Gen.SrcLines.DecodeStep.size_and_targets (SrcDecodeTie.arg_is_jump parg) (SrcDecodeTie.arg_target parg)
    n_args a offset next_offset s
  = OK (PCD.Gen.SrcLines.DecodeStep.mk_st (SrcDecodeTie.model_nov parg n_args)
          (match parg with AJump t _ => t :: PCD.Gen.SrcLines.DecodeStep.v_targets_set s
                         | _ => PCD.Gen.SrcLines.DecodeStep.v_targets_set s end)).
Proof. intros. apply SrcDecodeTie.decode_step_tie. Qed.
Print Assumptions C13_recorded_targets_and_size_overrides_are_the_source.

(* the offset against which the decoding loop has to_arg resolve relative jumps is the one after the whole instruction, its
   EXTENDED_ARG prefixes included (the model's decode_instrs passes next_offset) *)
Theorem C13_relative_jump_base_is_the_source : forall n_args offset next_offset,
  PCD.Gen.SrcLines.DecodeStep.jump_base n_args offset next_offset = next_offset.
Proof. exact SrcDecodeTie.jump_base_tie. Qed.
Print Assumptions C13_relative_jump_base_is_the_source.

(* and the block-building loop itself: `for offset, instruction in offsets_and_instruction` - a new block when the offset
   is a target, the jump operand rewritten to targets.index(...), append to the current block (NameError when none exists
   yet) - re-translated on every run (Gen/SrcLines.v, SplitBlocks: the finished blocks and the list `block` is bound to),
   run on the targets the decoding loop recorded (offset 0 and the target of every jump, sorted), IS the model's split_blocks.
   C13_blocks_are_the_jump_target_partition is a theorem about split_blocks; with this it is a theorem about that loop. *)
From PCD Require Proofs.SrcSplitTie.
Theorem C13_block_building_loop_is_the_source : forall {C} (ois : list (Z * instr_ C)),
  PCD.Gen.SrcLines.SplitBlocks.run (0 :: jump_targets ois) ois
  = split_blocks (sorted_set (0 :: jump_targets ois)) ois [] false.
Proof. intros. apply SrcSplitTie.split_blocks_run_tie. Qed.
Print Assumptions C13_block_building_loop_is_the_source.
