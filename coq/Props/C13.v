(* C13 - Blocks are exactly the jump-target partition of the instruction sequence.
   Statement only; proof in Proofs/BlocksPartition.v.  Model: Model/Blocks.v (bytes_to_blocks =
   parse_bytes, decode_instrs, split_blocks), tied to code_data/_blocks.py by the correspondence run. *)
From PCD Require Import Base.PyBase Base.Cfg Model.Data Model.LineTable Model.Blocks
  Proofs.BlocksPartition.

(* For any code object whose jump targets are instruction starts (the monitored assumption about
   compiled code): the blocks concatenate to the instruction sequence, none is empty, block k begins
   at the instruction whose offset is the k-th smallest element of {0} + jump targets (no more and no
   fewer block starts), every jump's target index is in range and designates the block starting at the
   instruction it pointed to, and every block after the first is the target of some jump. *)
Theorem C13_blocks_are_the_jump_target_partition :
  forall (C : Type) (keq : C -> C -> bool) c b lm names varnames freevars cellvars constants bt a
         blocks addl lm',
  bytes_to_blocks keq c b lm names varnames freevars cellvars constants bt a
    = OK (blocks, addl, lm') ->
  exists ps ois st1 st2,
    parse_bytes c b 0 0 0 = OK ps /\
    decode_instrs keq c ps freevars lm st1 = OK (ois, lm', st2) /\
    map fst ois = map p_first ps /\
    offsets_increasing ois /\
    (ois <> [] -> exists i r, ois = (0, i) :: r) /\
    let T := sorted_set (0 :: jump_targets ois) in
    split_blocks T ois [] false = OK blocks /\
    (ois <> [] -> targets_are_starts ois ->
       concat blocks = map (retarget T) (map snd ois) /\
       Forall (fun b => b <> []) blocks /\
       block_starts blocks (map fst ois) = T /\
       zlen blocks = zlen T /\
       (forall o i t rel, In (o, i) ois -> i_arg i = AJump t rel ->
          exists k, i_arg (retarget T i) = AJump k rel /\ 0 <= k < zlen blocks /\
                    nth_error (block_starts blocks (map fst ois)) (Z.to_nat k) = Some t) /\
       (forall k, 0 < k < zlen blocks ->
          exists o i t rel, In (o, i) ois /\ i_arg i = AJump t rel /\
                            i_arg (retarget T i) = AJump k rel /\
                            nth_error (block_starts blocks (map fst ois)) (Z.to_nat k) = Some t)).
Proof. intros C. exact (@bytes_to_blocks_partition C). Qed.
Print Assumptions C13_blocks_are_the_jump_target_partition.
