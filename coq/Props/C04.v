(* C04 - Function signature agrees with CPython's calling convention.
   Statements only; proofs in Proofs/ArgsProofs.v and Proofs/HeaderProofs.v.  Model: Model/Args.v (args_from_input,
   args_to_parameters, args_to_input), CPython side: Spec/Sig.v (inspect._signature_from_function). *)
From PCD Require Import Base.PyBase Base.Cfg Model.Flags Model.Args Spec.Sig
  Proofs.C11_Statements Proofs.ArgsProofs Model.Data Model.Consts Model.CodeData Spec.FuncKind
  Proofs.C04b_Statements Proofs.HeaderProofs.

(* For all argument counts, flags and co_varnames (long enough, parameter names distinct and
   non-empty): the decoded Args name each parameter with the kind inspect.signature reports, in
   signature order; len(args) is the total parameter count; the names are the prefix of co_varnames *)
Theorem C04_args_is_inspect_signature : forall argcount posonly kwonly varnames fl a fl',
  0 <= posonly <= argcount -> 0 <= kwonly ->
  let total := argcount + kwonly + (if flag_mem VARARGS fl then 1 else 0)
               + (if flag_mem VARKEYWORDS fl then 1 else 0) in
  total <= zlen varnames ->
  names_ok (take total varnames) = true ->
  args_from_input argcount posonly kwonly varnames fl = OK (a, fl') ->
  inspect_parameters argcount posonly kwonly (flag_mem VARARGS fl) (flag_mem VARKEYWORDS fl) varnames
    = Some (args_to_parameters a)
  /\ args_len a = total
  /\ args_to_varnames a = take total varnames
  /\ fl' = flag_remove VARKEYWORDS (flag_remove VARARGS fl).
Proof. exact args_is_inspect. Qed.
Print Assumptions C04_args_is_inspect_signature.

Theorem C04_args_decoding_total : forall argcount posonly kwonly varnames fl,
  0 <= posonly <= argcount -> 0 <= kwonly ->
  argcount + kwonly + (if flag_mem VARARGS fl then 1 else 0)
    + (if flag_mem VARKEYWORDS fl then 1 else 0) <= zlen varnames ->
  exists a fl', args_from_input argcount posonly kwonly varnames fl = OK (a, fl').
Proof. exact args_total. Qed.
Print Assumptions C04_args_decoding_total.

(* the encoder reproduces counts, names and the VARARGS / VARKEYWORDS flags *)
Theorem C04_args_roundtrip : forall argcount posonly kwonly varnames fl a fl',
  0 <= posonly <= argcount -> 0 <= kwonly ->
  let total := argcount + kwonly + (if flag_mem VARARGS fl then 1 else 0)
               + (if flag_mem VARKEYWORDS fl then 1 else 0) in
  total <= zlen varnames ->
  names_ok (take total varnames) = true ->
  args_from_input argcount posonly kwonly varnames fl = OK (a, fl') ->
  let '(ac, pc, kc, vn, fl2) := args_to_input a fl' in
  ac = argcount /\ pc = posonly /\ kc = kwonly /\ vn = take total varnames
  /\ flag_mem VARARGS fl2 = flag_mem VARARGS fl /\ flag_mem VARKEYWORDS fl2 = flag_mem VARKEYWORDS fl.
Proof. exact args_roundtrip. Qed.
Print Assumptions C04_args_roundtrip.

(* non-vacuity: def f(p, /, a, *args, k, **kw) *)
Example C04_example :
  match args_from_input 2 1 1 [[112]; [97]; [107]; [118]; [119]; [120]] [VARARGS; VARKEYWORDS; OPTIMIZED] with
  | OK (a, fl) =>
      list_eqb (fun x y => str_eqb (fst x) (fst y) && (snd x =? snd y)) (args_to_parameters a)
        [([112], K_POSONLY); ([97], K_POSKW); ([118], K_VARPOS); ([107], K_KWONLY); ([119], K_VARKW)]
  | Err _ => false
  end = true.
Proof. vm_compute. reflexivity. Qed.

(* Docstring, kind and "type None": whenever decoding succeeds, the data has a function type exactly when
   the code is function-like (CO_OPTIMIZED and CO_NEWLOCALS; module and class-body code decodes with
   type None); then the docstring is what CPython exposes as __doc__ (co_consts[0] when it is a str),
   the type is inspect's classification (isgeneratorfunction / iscoroutinefunction / isasyncgenfunction:
   one bit of co_flags each), and the args are the decoder's reading of exactly the header fields and
   flag bits that C04_args_is_inspect_signature equates with inspect.signature.  Spec/FuncKind.v is
   compared with real function objects and inspect on every run (group spec-kind). *)
Theorem C04_docstring_kind_and_type_none : forall c code ks d,
  flags_wf (cfg_flags c) = true ->
  mapM (to_const c) (co_consts code) = OK ks ->
  decode_code c code ks = OK d ->
  match cd_type d with
  | None => function_like c (co_flags code) = false
  | Some f =>
      function_like c (co_flags code) = true
      /\ fn_doc f = cpy_doc (co_consts code)
      /\ fn_type f = inspect_kind c (co_flags code)
      /\ exists fl0 fl1,
           to_flags_data c (co_flags code) = OK fl0
           /\ args_from_input (co_argcount code) (if cfg_v38 c then co_posonlyargcount code else 0)
                              (co_kwonlyargcount code) (co_varnames code) fl0 = OK (fn_args f, fl1)
           /\ flag_mem VARARGS fl0 = bit_set c VARARGS (co_flags code)
           /\ flag_mem VARKEYWORDS fl0 = bit_set c VARKEYWORDS (co_flags code)
  end.
Proof. exact C04_header. Qed.
Print Assumptions C04_docstring_kind_and_type_none.

(* Tie to the current source, for ALL inputs: Gen/SrcArgs.v is the translation of code_data/_args.py regenerated on
   every run (harness/translate_args.py: slices, t[0] raising IndexError on an empty tuple, flag membership / removal /
   addition, the guarded one-element tuples, the generator expressions of args_to_parameters); its four functions are
   the model's, so the signature theorems above are about what the source says now. *)
From PCD Require Base.PyImp Gen.SrcArgs Proofs.SrcArgsTie.
Theorem C04_args_functions_are_the_source :
  (forall argcount posonly kwonly varnames fl,
     PCD.Gen.SrcArgs.Args.args_from_input argcount posonly kwonly varnames fl
     = args_from_input argcount posonly kwonly varnames fl) /\
  (forall a, PCD.Gen.SrcArgs.Args.args_to_varnames a = args_to_varnames a) /\
  (forall a fl, PCD.Gen.SrcArgs.Args.args_to_input a fl = args_to_input a fl) /\
  (forall a, PCD.Gen.SrcArgs.Args.args_to_parameters a = args_to_parameters a).
Proof.
  split; [exact SrcArgsTie.args_from_input_tie|]. split; [exact SrcArgsTie.args_to_varnames_tie|].
  split; [exact SrcArgsTie.args_to_input_tie | exact SrcArgsTie.args_to_parameters_tie].
Qed.
Print Assumptions C04_args_functions_are_the_source.
