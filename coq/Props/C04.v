(* C04 - Function signature agrees with CPython's calling convention.
   Statements only; proofs in Proofs/ArgsProofs.v.  Model: Model/Args.v (args_from_input,
   args_to_parameters, args_to_input), CPython side: Spec/Sig.v (inspect._signature_from_function). *)
From PCD Require Import Base.PyBase Base.Cfg Model.Flags Model.Args Spec.Sig
  Proofs.C11_Statements Proofs.ArgsProofs.

(* For all argument counts, flags and co_varnames (long enough, parameter names distinct and
   non-empty): the decoded Args name each parameter with the kind inspect.signature reports, in
   signature order; len(args) is the total parameter count; the names are the prefix of co_varnames *)
Theorem C04_args_is_inspect_signature : forall argcount posonly kwonly varnames fl a fl',
  0 <= posonly <= argcount -> 0 <= kwonly ->
  let total := argcount + kwonly + (if flag_mem VARARGS fl then 1 else 0)
               + (if flag_mem VARKEYWORDS fl then 1 else 0) in
  total <= zlen varnames ->
  names_ok (take total varnames) = true ->
  args_from_input argcount posonly kwonly varnames fl = OK (a, fl') ->
  inspect_parameters argcount posonly kwonly (flag_mem VARARGS fl) (flag_mem VARKEYWORDS fl) varnames
    = Some (args_to_parameters a)
  /\ args_len a = total
  /\ args_to_varnames a = take total varnames
  /\ fl' = flag_remove VARKEYWORDS (flag_remove VARARGS fl).
Proof. exact args_is_inspect. Qed.
Print Assumptions C04_args_is_inspect_signature.

Theorem C04_args_decoding_total : forall argcount posonly kwonly varnames fl,
  0 <= posonly <= argcount -> 0 <= kwonly ->
  argcount + kwonly + (if flag_mem VARARGS fl then 1 else 0)
    + (if flag_mem VARKEYWORDS fl then 1 else 0) <= zlen varnames ->
  exists a fl', args_from_input argcount posonly kwonly varnames fl = OK (a, fl').
Proof. exact args_total. Qed.
Print Assumptions C04_args_decoding_total.

(* the encoder reproduces counts, names and the VARARGS / VARKEYWORDS flags *)
Theorem C04_args_roundtrip : forall argcount posonly kwonly varnames fl a fl',
  0 <= posonly <= argcount -> 0 <= kwonly ->
  let total := argcount + kwonly + (if flag_mem VARARGS fl then 1 else 0)
               + (if flag_mem VARKEYWORDS fl then 1 else 0) in
  total <= zlen varnames ->
  names_ok (take total varnames) = true ->
  args_from_input argcount posonly kwonly varnames fl = OK (a, fl') ->
  let '(ac, pc, kc, vn, fl2) := args_to_input a fl' in
  ac = argcount /\ pc = posonly /\ kc = kwonly /\ vn = take total varnames
  /\ flag_mem VARARGS fl2 = flag_mem VARARGS fl /\ flag_mem VARKEYWORDS fl2 = flag_mem VARKEYWORDS fl.
Proof. exact args_roundtrip. Qed.
Print Assumptions C04_args_roundtrip.

(* non-vacuity: def f(p, /, a, *args, k, **kw) *)
Example C04_example :
  match args_from_input 2 1 1 [[112]; [97]; [107]; [118]; [119]; [120]] [VARARGS; VARKEYWORDS; OPTIMIZED] with
  | OK (a, fl) =>
      list_eqb (fun x y => str_eqb (fst x) (fst y) && (snd x =? snd y)) (args_to_parameters a)
        [([112], K_POSONLY); ([97], K_POSKW); ([118], K_VARPOS); ([107], K_KWONLY); ([119], K_VARKW)]
  | Err _ => false
  end = true.
Proof. vm_compute. reflexivity. Qed.
