(* C07 - JSON form is strict and round-trips without loss.
   Statements only; proofs in Proofs/JsonProofs1.v, JsonProofs2.v.  Model: Model/Json.v, tied to
   code_data/_json_data.py and field_is_default by the correspondence run.  The text layer (json / orjson
   dumps and loads, repr / literal_eval of surrogate strings, base64) is outside the model: see the
   trusted base.  Schema validity is decided by the check's independent validator on every document. *)
From PCD Require Import Base.PyBase Model.Args Model.Data Model.Consts Model.Json Model.JsonFields
  Proofs.C07_Statements Proofs.JsonProofs Gen.SrcFields Spec.JsonSchema Gen.SrcSchema Proofs.SchemaProofs.
From PCD Require Gen.Src.
From Coq Require Import String.
Open Scope list_scope.

(* loading the JSON form gives equal data (all NaNs identified) for every value whose integer fields
   are JSON-safe, at any nesting of code constants and for every constant kind *)
Theorem C07_json_roundtrip : forall d,
  wfj_cd d = true ->
  exists d', code_data_from_json (code_data_to_json d) = OK d' /\ cd_eqb d d' = true.
Proof. exact json_roundtrip. Qed.
Print Assumptions C07_json_roundtrip.

(* and identical data when no float constant is a NaN *)
Theorem C07_json_roundtrip_exact : forall d,
  wfj_cd d = true -> nanfree_const (KCode d) = true ->
  code_data_from_json (code_data_to_json d) = OK d.
Proof. exact json_roundtrip_exact. Qed.
Print Assumptions C07_json_roundtrip_exact.

(* every inner constant - tuples, frozensets, bytes, complex, signed zeros, infinities, huge ints,
   Ellipsis, strings with lone surrogates, any nesting *)
Theorem C07_constant_roundtrip : forall k,
  exists k', as_const (interp_json (iconst_to_json k)) = OK k' /\ ikey_eqb k k' = true.
Proof. exact iconst_roundtrip. Qed.
Print Assumptions C07_constant_roundtrip.

(* integers beyond +-2^53 travel as strings and come back exactly: decimal text up to MAX_DECIMAL_BITS bits,
   hexadecimal text ('0x..' / '-0x..') beyond *)
Theorem C07_big_int_text : forall z, parse_int_text (int_text z) = Some z.
Proof. exact int_text_roundtrip. Qed.
Print Assumptions C07_big_int_text.

(* and the decimal conversion - which CPython refuses for huge ints (sys.set_int_max_str_digits; no limit below
   640 digits can be configured) - is only ever asked for ints of at most 617 digits, so to_json_data / from_json_data
   cannot fail on the size of an int constant.  (Before the repair recorded as D21 the writer used str() for
   every int: a hex literal of more than 4300 digits compiled, decoded, and made to_json_data raise.) *)
Theorem C07_decimal_text_only_for_short_ints : forall z,
  (bit_length z >? MAX_DECIMAL_BITS) = false -> int_text z = decimal z /\ Z.abs z < 10 ^ 617.
Proof.
  intros z H. split; [unfold int_text; rewrite H; reflexivity | exact (decimal_only_below_640_digits z H)].
Qed.
Print Assumptions C07_decimal_text_only_for_short_ints.

(* the form is strict JSON: no NaN / Infinity numbers, no integer beyond +-2^53 - for every value *)
Theorem C07_json_is_plain : forall d, json_plain (code_data_to_json d) = true.
Proof. exact json_plain_all. Qed.
Print Assumptions C07_json_is_plain.

(* the dataclass fields and defaults the model hides / restores are those of the current source
   (Gen/SrcFields.v is regenerated from code_data/__init__.py on every run) *)
Example C07_fields_and_defaults_match_the_source : fields_eqb source_fields model_fields = true.
Proof. vm_compute. reflexivity. Qed.

(* the +-2^53 bounds of the model are those of the current source (Gen/Src.v, regenerated on every run) *)
Example C07_integer_bounds_match_the_source :
  PCD.Gen.Src.MIN_INTEGER = MIN_INTEGER /\ PCD.Gen.Src.MAX_INTEGER = MAX_INTEGER /\
  PCD.Gen.Src.MAX_DECIMAL_BITS = MAX_DECIMAL_BITS.
Proof. repeat split; vm_compute; reflexivity. Qed.

(* Schema validity.  JSON_SCHEMA below is Gen/SrcSchema.v: the dictionary code_data/__init__.py defines,
   re-translated into a Coq term on every run; validate is the JSON-Schema validator of
   Spec/JsonSchema.v (type, properties, required, items, anyOf, enum, $ref; compared with the harness's
   independent Python validator on corrupted documents on every run).  For EVERY datum whose integers are
   in the interchange range (wfj_cd, the premise of the round-trip theorem) the document to_json_data
   produces validates against the published schema - any nesting of tuples, frozensets and code, any
   strings, any private fields; the fuel is an explicit function of the nesting depth. *)
Theorem C07_json_validates_against_the_published_schema : forall d,
  wfj_cd d = true ->
  validate (schema_fuel d) SrcSchema.JSON_SCHEMA SrcSchema.JSON_SCHEMA (code_data_to_json d) = true.
Proof. exact json_schema_valid. Qed.
Print Assumptions C07_json_validates_against_the_published_schema.

(* more fuel never turns a valid document invalid: the bound above is not an artefact *)
Theorem C07_validation_is_monotone_in_fuel : forall f f' root sch v,
  (f <= f')%nat -> validate f root sch v = true -> validate f' root sch v = true.
Proof. exact validate_mono. Qed.
Print Assumptions C07_validation_is_monotone_in_fuel.

(* the validator is not trivially true: documents outside the schema are rejected for every fuel up to 59 *)
Example C07_schema_rejects_bad_documents :
  forallb (fun f => negb (validate f SrcSchema.JSON_SCHEMA SrcSchema.JSON_SCHEMA
                            (JObj [(lit "blocks"%string, JList []); (lit "filename"%string, JInt 3)])))
          (seq 0 60) = true.
Proof. vm_compute. reflexivity. Qed.

(* Tie of the writer to the current source, for ALL inner constants at any nesting: for each kind of constant the first branch
   of value_to_json that applies (isinstance tests in source order, bool being an int, `value == ...` for Ellipsis) is
   re-translated on every run (Gen/SrcToJson.v) - the inf / nan forms of floats, the +-2^53 bounds and the decimal / hexadecimal
   text of big ints, the {"string": ...} form of strings that are not valid UTF-8, complex parts, bytes, tuples as lists,
   frozensets - and is the model's iconst_to_json. *)
From PCD Require Gen.SrcToJson Proofs.SrcToJsonTie.
Theorem C07_constant_writer_is_the_source : forall k, PCD.Gen.SrcToJson.to_json k = iconst_to_json k.
Proof. exact SrcToJsonTie.to_json_tie. Qed.
Print Assumptions C07_constant_writer_is_the_source.
