(* Rendering of the Python values and control flow the library uses.
   Exceptions are values, dicts are insertion-ordered association lists, ints are Z. *)
From Coq Require Export ZArith List Bool Lia.
Export ListNotations.
Open Scope Z_scope.

Inductive exn :=
| KeyError | IndexError | ValueError | AssertionError | NotImplementedError
| TypeError | AttributeError | NameError | OutOfFuel.

Inductive res (A : Type) := OK (a : A) | Err (e : exn).
Arguments OK {A} a.
Arguments Err {A} e.

Definition bind {A B} (r : res A) (f : A -> res B) : res B :=
  match r with OK a => f a | Err e => Err e end.
Notation "'do' x <- r ; k" := (bind r (fun x => k))
  (at level 200, x pattern, r at level 100, k at level 200, right associativity).
Definition ret {A} (a : A) : res A := OK a.
Definition assert_ (b : bool) (e : exn) : res unit := if b then OK tt else Err e.

Definition is_ok {A} (r : res A) : bool := match r with OK _ => true | Err _ => false end.

(* map in the exception monad; written with an inner fix so that it can be used for
   nested recursion (the guard checker sees through it) *)
Definition mapM {A B} (f : A -> res B) : list A -> res (list B) :=
  fix go (l : list A) : res (list B) :=
    match l with
    | [] => OK []
    | x :: xs => match f x with
                 | Err e => Err e
                 | OK y => match go xs with Err e => Err e | OK ys => OK (y :: ys) end
                 end
    end.

(* strings are lists of code points *)
Definition str := list Z.

Fixpoint list_eqb {A} (eqb : A -> A -> bool) (a b : list A) : bool :=
  match a, b with
  | [], [] => true
  | x :: xs, y :: ys => eqb x y && list_eqb eqb xs ys
  | _, _ => false
  end.
Definition str_eqb : str -> str -> bool := list_eqb Z.eqb.

Definition option_eqb {A} (eqb : A -> A -> bool) (a b : option A) : bool :=
  match a, b with
  | None, None => true
  | Some x, Some y => eqb x y
  | _, _ => false
  end.

Lemma list_eqb_spec {A} (eqb : A -> A -> bool) :
  (forall x y, eqb x y = true <-> x = y) ->
  forall a b, list_eqb eqb a b = true <-> a = b.
Proof.
  intros H a; induction a as [|x xs IH]; intros [|y ys]; cbn; split; intros E;
    try reflexivity; try discriminate.
  - apply andb_true_iff in E as [E1 E2]. apply H in E1. apply IH in E2. now subst.
  - inversion E; subst. apply andb_true_iff; split; [now apply H | now apply IH].
Qed.

Lemma str_eqb_spec a b : str_eqb a b = true <-> a = b.
Proof. apply list_eqb_spec. intros; apply Z.eqb_eq. Qed.

(* insertion ordered dict with Z keys *)
Section ODict.
  Context {V : Type}.
  Definition odict := list (Z * V).
  Fixpoint oget (d : odict) (k : Z) : option V :=
    match d with
    | [] => None
    | (k', v) :: r => if k' =? k then Some v else oget r k
    end.
  (* d[k] = v : an existing key keeps its position *)
  Fixpoint oset (d : odict) (k : Z) (v : V) : odict :=
    match d with
    | [] => [(k, v)]
    | (k', v') :: r => if k' =? k then (k, v) :: r else (k', v') :: oset r k v
    end.
  Fixpoint odel (d : odict) (k : Z) : odict :=
    match d with
    | [] => []
    | (k', v') :: r => if k' =? k then r else (k', v') :: odel r k
    end.
  Definition omem (d : odict) (k : Z) : bool :=
    match oget d k with Some _ => true | None => false end.
  Definition okeys (d : odict) : list Z := map fst d.
End ODict.
Arguments odict V : clear implicits.

(* python slicing helpers on lists *)
Definition take {A} (n : Z) (l : list A) : list A := firstn (Z.to_nat n) l.
Definition drop {A} (n : Z) (l : list A) : list A := skipn (Z.to_nat n) l.
Definition zlen {A} (l : list A) : Z := Z.of_nat (length l).
Definition znth {A} (l : list A) (i : Z) : option A :=
  if i <? 0 then None else nth_error l (Z.to_nat i).

Fixpoint index_of {A} (eqb : A -> A -> bool) (x : A) (l : list A) : option Z :=
  match l with
  | [] => None
  | y :: r => if eqb x y then Some 0
              else match index_of eqb x r with Some i => Some (i + 1) | None => None end
  end.

(* range(a, b, 2) *)
Fixpoint range2_fuel (n : nat) (a : Z) : list Z :=
  match n with O => [] | S n' => a :: range2_fuel n' (a + 2) end.
Definition range2 (a b : Z) : list Z :=
  if b <=? a then [] else range2_fuel (Z.to_nat ((b - a + 1) / 2)) a.

Definition sumZ (l : list Z) : Z := fold_right Z.add 0 l.
