(* Version configuration: what differs between the supported interpreters.
   Gen/Cfg37.v ... Gen/Cfg310.v instantiate it from the running interpreters on every run. *)
From PCD Require Import Base.PyBase.

(* Flag names: dis.COMPILER_FLAG_NAMES and __future__.all_feature_names *)
Inductive flag :=
| OPTIMIZED | NEWLOCALS | VARARGS | VARKEYWORDS | NESTED | GENERATOR | NOFREE | COROUTINE
| ITERABLE_COROUTINE | ASYNC_GENERATOR
| F_division | F_absolute_import | F_with_statement | F_print_function | F_unicode_literals
| F_barry_as_FLUFL | F_generator_stop | F_annotations
| F_other (n : Z).

Definition flag_id (f : flag) : Z :=
  match f with
  | OPTIMIZED => 0 | NEWLOCALS => 1 | VARARGS => 2 | VARKEYWORDS => 3 | NESTED => 4
  | GENERATOR => 5 | NOFREE => 6 | COROUTINE => 7 | ITERABLE_COROUTINE => 8
  | ASYNC_GENERATOR => 9 | F_division => 10 | F_absolute_import => 11
  | F_with_statement => 12 | F_print_function => 13 | F_unicode_literals => 14
  | F_barry_as_FLUFL => 15 | F_generator_stop => 16 | F_annotations => 17
  | F_other n => 100 + Z.abs n
  end.
Definition flag_eqb (a b : flag) : bool := flag_id a =? flag_id b.

Record cfg := {
  cfg_v310 : bool;                 (* _ATLEAST_310 / USE_LINETABLE *)
  cfg_v38 : bool;                  (* co_posonlyargcount exists *)
  cfg_hasjabs : list Z;
  cfg_hasjrel : list Z;
  cfg_hasname : list Z;
  cfg_haslocal : list Z;
  cfg_hasfree : list Z;
  cfg_hasconst : list Z;
  cfg_have_argument : Z;
  cfg_extended_arg : Z;
  cfg_opcodes : list Z;            (* opcodes that have a name in dis.opmap *)
  cfg_flags : list (flag * Z)      (* members of _CodeFlag in definition order *)
}.

Definition zmem (x : Z) (l : list Z) : bool := existsb (Z.eqb x) l.
