(* Flat token streams: the model's results are serialised to [list Z] inside Coq and compared with
   the stream the harness computed from the implementation's result. *)
From PCD Require Import Base.PyBase.

Definition ser_Z (z : Z) : list Z := [z].
Definition ser_bool (b : bool) : list Z := [if b then 1 else 0].
Definition ser_opt {A} (f : A -> list Z) (o : option A) : list Z :=
  match o with None => [0] | Some a => 1 :: f a end.
Definition ser_list {A} (f : A -> list Z) (l : list A) : list Z := zlen l :: flat_map f l.
Definition ser_str (s : str) : list Z := ser_list ser_Z s.
Definition ser_pair {A B} (f : A -> list Z) (g : B -> list Z) (p : A * B) : list Z :=
  f (fst p) ++ g (snd p).
Definition exn_code (e : exn) : Z :=
  match e with
  | KeyError => 1 | IndexError => 2 | ValueError => 3 | AssertionError => 4
  | NotImplementedError => 5 | TypeError => 6 | AttributeError => 7 | NameError => 8
  | OutOfFuel => 9
  end.
(* exception class not compared *)
Definition ser_res {A} (f : A -> list Z) (r : res A) : list Z :=
  match r with OK a => 0 :: f a | Err _ => [1] end.
(* exception class compared *)
Definition ser_res_cls {A} (f : A -> list Z) (r : res A) : list Z :=
  match r with OK a => 0 :: f a | Err e => [1; exn_code e] end.

Definition zlist_eqb : list Z -> list Z -> bool := list_eqb Z.eqb.

(* For every case whose model stream differs from the expected one: -7777, index, then the
   first tokens of the model stream, so that the harness can show what the model said. *)
Fixpoint mismatches_from (i : Z) (cases : list (list Z * list Z)) : list Z :=
  match cases with
  | [] => []
  | (got, want) :: r =>
      if zlist_eqb got want then mismatches_from (i + 1) r
      else (-7777) :: i :: zlen got :: firstn 400 got ++ mismatches_from (i + 1) r
  end.
Definition mismatches := mismatches_from 0.
