(* Target language of harness/translate_lines.py: the statement structure of a Python function is rendered
   as a state transformer [st -> res st] over a record of its mutable locals; expressions that can raise
   (arithmetic or ordering on a value that may be None) live in [res].  Loops carry explicit fuel. *)
From PCD Require Import Base.PyBase.

(* while cond: body *)
Fixpoint while_ {S : Type} (fuel : nat) (cond : S -> res bool) (body : S -> res S) (s : S) : res S :=
  match cond s with
  | Err e => Err e
  | OK false => OK s
  | OK true =>
      match fuel with
      | O => Err OutOfFuel
      | S f => match body s with Err e => Err e | OK s' => while_ f cond body s' end
      end
  end.

(* for x in l: body *)
Fixpoint foldM {S A : Type} (f : S -> A -> res S) (l : list A) (s : S) : res S :=
  match l with
  | [] => OK s
  | x :: r => match f s x with Err e => Err e | OK s' => foldM f r s' end
  end.

(* arithmetic / ordering on None raises TypeError *)
Definition un_o (a : option Z) : res Z := match a with Some x => OK x | None => Err TypeError end.

Definition is_none {A} (a : option A) : bool := match a with None => true | Some _ => false end.
Definition is_some {A} (a : option A) : bool := match a with None => false | Some _ => true end.
(* x == n, with x possibly None (never raises) *)
Definition opt_eqz (a : option Z) (n : Z) : bool := match a with Some x => x =? n | None => false end.
Definition opt_eqo (a b : option Z) : bool :=
  match a, b with Some x, Some y => x =? y | None, None => true | _, _ => false end.
(* truth value of an int-or-None *)
Definition truthy_o (a : option Z) : bool := match a with Some x => negb (x =? 0) | None => false end.
Definition truthy_z (x : Z) : bool := negb (x =? 0).

(* short-circuit and / or on possibly raising operands *)
Definition and_r (a b : res bool) : res bool :=
  match a with OK true => b | OK false => OK false | Err e => Err e end.
Definition or_r (a b : res bool) : res bool :=
  match a with OK true => OK true | OK false => b | Err e => Err e end.
Definition not_r (a : res bool) : res bool :=
  match a with OK x => OK (negb x) | Err e => Err e end.
Definition ite_r {A} (c : res bool) (a b : res A) : res A :=
  match c with OK true => a | OK false => b | Err e => Err e end.

(* int.from_bytes([b], "big", signed=True) for b in range(256); bytes() of a list *)
Definition from_signed_byte (b : Z) : res Z :=
  if (0 <=? b) && (b <=? 255) then OK (if b <? 128 then b else b - 256) else Err ValueError.

Lemma while_fuel_mono {S} (cond : S -> res bool) (body : S -> res S) :
  forall f s r, while_ f cond body s = OK r -> forall f', (f <= f')%nat -> while_ f' cond body s = OK r.
Proof.
  induction f as [|f IH]; intros s r H f' Hle.
  - destruct f'; cbn in *; destruct (cond s) as [[|]|]; try discriminate; assumption.
  - destruct f' as [|f']; [lia|]. cbn in *. destruct (cond s) as [[|]|]; try discriminate; try assumption.
    destruct (body s) as [s'|]; try discriminate. apply IH with (f' := f') in H; [assumption | lia].
Qed.

(* b[i] on a bytes object, i >= 0 here (negative indices count from the end in Python) *)
Definition byte_at (b : list Z) (i : Z) : res Z :=
  match (if i <? 0 then znth b (zlen b + i) else znth b i) with Some x => OK x | None => Err IndexError end.

(* t[i] on a tuple *)
Definition name_at {A} (l : list A) (i : Z) : res A :=
  match (if i <? 0 then znth l (zlen l + i) else znth l i) with Some x => OK x | None => Err IndexError end.

(* truth value of an Optional[str]: None and the empty string are false *)
Definition name_truthy (o : option (list Z)) : bool := match o with Some (_ :: _) => true | _ => false end.

(* reading a variable that is only bound by a loop body: NameError when the loop never ran *)
Definition bound_z (v : option Z) : res Z := match v with Some x => OK x | None => Err NameError end.

(* range(a, b) *)
Fixpoint zrange_fuel (n : nat) (a : Z) : list Z := match n with O => [] | S n' => a :: zrange_fuel n' (a + 1) end.
Definition zrange (a b : Z) : list Z := zrange_fuel (Z.to_nat (b - a)) a.

(* range(a, b, s) for a positive step *)
Fixpoint zrange_step_fuel (n : nat) (a s : Z) : list Z := match n with O => [] | S n' => a :: zrange_step_fuel n' (a + s) s end.
Definition zrange_step (a b s : Z) : list Z := if s <=? 0 then [] else zrange_step_fuel (Z.to_nat ((b - a + s - 1) / s)) a s.

(* bytes(iterable of ints): ValueError unless every value is in range(256) *)
Definition bytes_of (l : list Z) : res (list Z) :=
  if forallb (fun x => (0 <=? x) && (x <=? 255)) l then OK l else Err ValueError.

(* int.from_bytes([x], <any byte order>, signed=...) of one byte *)
Definition from_one_byte (signed : bool) (x : Z) : Z := if signed && (128 <=? x) then x - 256 else x.

(* set(d.keys()) == {k} on an insertion-ordered dict *)
Definition keyset_is {V} (d : odict V) (k : Z) : bool :=
  match okeys d with [] => false | ks => forallb (fun k' => k' =? k) ks end.
Definition nonempty {A} (l : list A) : bool := match l with [] => false | _ => true end.
(* for k, v in d.items(): d[k] = f v   (the value under the key being visited is replaced; keys and order are kept) *)
Definition omap_values {V} (f : V -> V) (d : odict V) : odict V := map (fun kv : Z * V => (fst kv, f (snd kv))) d.

(* sorted(d.items()) on a dict with int keys: by key (keys are distinct, so the values are never compared) *)
Fixpoint insert_by_key {V} (x : Z * V) (l : list (Z * V)) : list (Z * V) :=
  match l with
  | [] => [x]
  | y :: r => if fst x <=? fst y then x :: l else y :: insert_by_key x r
  end.
Fixpoint isort_by_key {V} (l : list (Z * V)) : list (Z * V) :=
  match l with [] => [] | x :: r => insert_by_key x (isort_by_key r) end.
(* set(d) == set(range(len(d))) *)
Definition keys_are_range {V} (d : odict V) : bool :=
  forallb (fun k => existsb (Z.eqb k) (okeys d)) (zrange 0 (zlen d)) && forallb (fun k => (0 <=? k) && (k <? zlen d)) (okeys d).
